//! C11 / C09 / C15 (bounded stand-in): pseudo-random sequential histories of get / touch / set / put over three keys
//! through a plain cache, a sharded cache and a stacked cache (plain writer + read-only plain reader), each time with
//! two independent handles on the same directories (as two processes would hold), capacity so large that nothing is
//! ever evicted.  After every operation:
//!   C11  every lookup returns exactly what a simple map predicts (latest set, else first put since the key was last
//!        absent); a successful set / put has consumed its source; a sharded cache holds at most one copy of a key;
//!   C09  a get hit, a touch hit and a put onto an existing key leave the entry marked as used (atime >= mtime) with
//!        its mtime and content unchanged; a set and an inserting put leave it with the newest mtime of its directory
//!        and not marked (atime < mtime);
//!   C15  nothing under the read-only root changes except access times.
//! Usage: kreplay c11 <number of histories> <property filter: C11|C09|C15|all>
use filetime::FileTime;
use kismet_cache::{plain, sharded, CacheBuilder, Key};
use std::collections::BTreeMap;
use std::io::{Read, Write};
use std::os::unix::fs::MetadataExt;
use std::path::{Path, PathBuf};

struct Rng(u64);
impl Rng {
    fn next(&mut self) -> u64 {
        self.0 = self.0.wrapping_mul(6364136223846793005).wrapping_add(1442695040888963407);
        self.0 >> 33
    }
}

fn find_copies(dir: &Path, name: &str, out: &mut Vec<PathBuf>) {
    if let Ok(rd) = std::fs::read_dir(dir) {
        for e in rd.flatten() {
            let p = e.path();
            if p.is_dir() {
                if e.file_name() != ".kismet_temp" {
                    find_copies(&p, name, out);
                }
            } else if e.file_name() == name {
                out.push(p);
            }
        }
    }
}

fn snapshot(dir: &Path) -> BTreeMap<PathBuf, (u64, i64, i64, u32, u64)> {
    let mut m = BTreeMap::new();
    fn walk(d: &Path, m: &mut BTreeMap<PathBuf, (u64, i64, i64, u32, u64)>) {
        if let Ok(rd) = std::fs::read_dir(d) {
            for e in rd.flatten() {
                let p = e.path();
                if let Ok(md) = std::fs::symlink_metadata(&p) {
                    m.insert(p.clone(), (md.len(), md.mtime(), md.mtime_nsec(), md.mode(), md.nlink()));
                    if md.is_dir() {
                        walk(&p, m);
                    }
                }
            }
        }
    }
    walk(dir, &mut m);
    m
}

enum Front {
    Plain(plain::Cache),
    Sharded(sharded::Cache),
    Stacked(kismet_cache::Cache),
}

fn key_of(name: &'static str) -> Key<'static> {
    let h = name.bytes().fold(0xcbf2_9ce4_8422_2325u64, |a, b| (a ^ b as u64).wrapping_mul(0x100_0000_01b3));
    Key::new(name, h, h.rotate_left(29) ^ 0x5555)
}

impl Front {
    /// The handle is returned unread: reading it makes the kernel update the access time (relatime), which would
    /// hide a lookup that forgot to mark the entry.
    fn get(&self, name: &'static str) -> std::io::Result<Option<std::fs::File>> {
        match self {
            Front::Plain(c) => c.get(name),
            Front::Sharded(c) => c.get(key_of(name)),
            Front::Stacked(c) => c.get(key_of(name)),
        }
    }
    fn touch(&self, name: &'static str) -> std::io::Result<bool> {
        match self {
            Front::Plain(c) => c.touch(name),
            Front::Sharded(c) => c.touch(key_of(name)),
            Front::Stacked(c) => c.touch(key_of(name)),
        }
    }
    fn set(&self, name: &'static str, v: &Path) -> std::io::Result<()> {
        match self {
            Front::Plain(c) => c.set(name, v),
            Front::Sharded(c) => c.set(key_of(name), v),
            Front::Stacked(c) => c.set(key_of(name), v),
        }
    }
    fn put(&self, name: &'static str, v: &Path) -> std::io::Result<()> {
        match self {
            Front::Plain(c) => c.put(name, v),
            Front::Sharded(c) => c.put(key_of(name), v),
            Front::Stacked(c) => c.put(key_of(name), v),
        }
    }
}

fn open_front(kind: &str, wdir: &Path, rdir: &Path) -> Front {
    let cap = 30_000_000;
    match kind {
        "plain" => Front::Plain(plain::Cache::new(wdir.to_path_buf(), cap)),
        "sharded" => Front::Sharded(sharded::Cache::new(wdir.to_path_buf(), 3, 3 * cap)),
        _ => {
            let mut b = CacheBuilder::new();
            b.plain_writer(wdir, cap);
            b.plain_reader(rdir);
            Front::Stacked(b.build())
        }
    }
}

pub fn run(args: &[String]) {
    let histories: u64 = args.first().and_then(|s| s.parse().ok()).unwrap_or(20);
    let filter = args.get(1).map(|s| s.as_str()).unwrap_or("all").to_string();
    let wants = |p: &str| filter == "all" || filter == p;
    let names: [&'static str; 3] = ["alpha", "beta", "gamma"];
    let mut evals = 0u64;
    for seed in 0..histories {
        for kind in ["plain", "sharded", "stacked"] {
            let mut rng = Rng(seed * 7919 + kind.len() as u64);
            let root = tempfile::tempdir().unwrap();
            let wdir = root.path().join("w");
            let rdir = root.path().join("r");
            let sdir = root.path().join("staging");
            for d in [&wdir, &rdir, &sdir] {
                std::fs::create_dir_all(d).unwrap();
            }
            // the read-only side holds one key the writer never sees
            std::fs::File::create(rdir.join("gamma")).unwrap().write_all(b"ro-gamma").unwrap();
            let old = FileTime::from_unix_time(1_500_000_000, 0);
            filetime::set_file_times(rdir.join("gamma"), FileTime::from_unix_time(1_500_000_000 - 120, 0), old).unwrap();
            let handles = [open_front(kind, &wdir, &rdir), open_front(kind, &wdir, &rdir)];
            let mut model: BTreeMap<&'static str, Vec<u8>> = BTreeMap::new();
            let mut trace: Vec<String> = Vec::new();
            let ro_before = snapshot(&rdir);
            for step in 0..30u64 {
                evals += 1;
                let h = &handles[(rng.next() % 2) as usize];
                let name = names[(rng.next() % 3) as usize];
                let op = ["get", "touch", "set", "put"][(rng.next() % 4) as usize];
                let value = format!("value-{}-{}", seed, step).into_bytes();
                let ro_visible = kind == "stacked" && name == "gamma" && !model.contains_key("gamma");
                let mut copies = Vec::new();
                find_copies(&wdir, name, &mut copies);
                let before = copies.first().and_then(|p| std::fs::metadata(p).ok().map(|m| (p.clone(), m)));
                trace.push(format!("{} {}", op, name));
                let mut problem: Option<(&str, String)> = None;
                let mut early: Option<(&str, String)> = None;
                match op {
                    "get" => match h.get(name) {
                        Err(e) => problem = Some(("C11", format!("get failed: {}", e))),
                        Ok(handle) => {
                            // read marks are looked at BEFORE the handle is read
                            let marked_path = if ro_visible { Some(rdir.join("gamma")) } else { copies.first().cloned() };
                            if let (Some(mp), true) = (marked_path, handle.is_some()) {
                                if let Ok(md) = std::fs::metadata(&mp) {
                                    if FileTime::from_last_access_time(&md) < FileTime::from_last_modification_time(&md) {
                                        early = Some(("C09", "a get hit left the entry not marked as used (atime < mtime) before the handle was read".to_string()));
                                    }
                                }
                            }
                            let got = handle.map(|mut f| {
                                let mut v = Vec::new();
                                let _ = f.read_to_end(&mut v);
                                v
                            });
                            let want = model.get(name).cloned().or(if ro_visible { Some(b"ro-gamma".to_vec()) } else { None });
                            if got != want {
                                problem = Some(("C11", format!("get returned {:?}, the map predicts {:?}", got.map(|v| String::from_utf8_lossy(&v).into_owned()), want.map(|v| String::from_utf8_lossy(&v).into_owned()))));
                            }
                        }
                    },
                    "touch" => match h.touch(name) {
                        Err(e) => problem = Some(("C11", format!("touch failed: {}", e))),
                        Ok(t) => {
                            if t != (model.contains_key(name) || ro_visible) {
                                problem = Some(("C11", format!("touch reported {}, the map predicts {}", t, !t)));
                            }
                        }
                    },
                    _ => {
                        let src = sdir.join(format!("src-{}", step));
                        std::fs::File::create(&src).unwrap().write_all(&value).unwrap();
                        let r = if op == "set" { h.set(name, &src) } else { h.put(name, &src) };
                        match r {
                            Err(e) => problem = Some(("C11", format!("{} failed: {}", op, e))),
                            Ok(()) => {
                                if src.exists() {
                                    problem = Some(("C11", format!("a successful {} did not consume its source file", op)));
                                }
                                if op == "set" || !model.contains_key(name) {
                                    model.insert(name, value.clone());
                                }
                            }
                        }
                    }
                }
                if problem.is_none() {
                    problem = early;
                }
                // state checks
                let mut after_copies = Vec::new();
                find_copies(&wdir, name, &mut after_copies);
                if problem.is_none() && after_copies.len() > 1 {
                    problem = Some(("C11", format!("{} copies of one key in the cache directory tree", after_copies.len())));
                }
                if problem.is_none() {
                    if let Some(p) = after_copies.first() {
                        let md = std::fs::metadata(p).unwrap();
                        let (at, mt) = (FileTime::from_last_access_time(&md), FileTime::from_last_modification_time(&md));
                        let existed = before.as_ref().map(|(bp, _)| bp == p).unwrap_or(false);
                        let marks = op == "get" || op == "touch" || (op == "put" && existed);
                        if marks && existed {
                            let bm = &before.as_ref().unwrap().1;
                            if at < mt {
                                problem = Some(("C09", format!("after a successful {} the entry is not marked as used (atime < mtime)", op)));
                            } else if FileTime::from_last_modification_time(bm) != mt || bm.len() != md.len() || bm.ino() != md.ino() {
                                problem = Some(("C09", format!("a {} changed the queue position or the content of the entry", op)));
                            }
                        }
                        if (op == "set" || (op == "put" && !existed)) && model.get(name) == Some(&value) {
                            if at >= mt {
                                problem = Some(("C09", format!("after a {} that inserts, the entry is marked as used (atime >= mtime)", op)));
                            }
                            let dir = p.parent().unwrap();
                            for e in std::fs::read_dir(dir).unwrap().flatten() {
                                if e.path().is_file() {
                                    let om = FileTime::from_last_modification_time(&e.metadata().unwrap());
                                    if om > mt {
                                        problem = Some(("C09", format!("after a {} that inserts, {} has a newer queue position than the new entry", op, e.file_name().to_string_lossy())));
                                    }
                                }
                            }
                        }
                    }
                }
                if problem.is_none() && kind == "stacked" && snapshot(&rdir) != ro_before {
                    problem = Some(("C15", "something under the read-only root changed (other than access times)".to_string()));
                }
                if let Some((prop, what)) = problem {
                    if wants(prop) {
                        println!(
                            "{{\"found\":{{\"property\":\"{}\",\"front\":\"{}\",\"history\":\"{}\",\"what\":\"{}\"}},\"evaluations\":{},\"distinct_nontrivial\":{}}}",
                            prop,
                            kind,
                            trace.join("; "),
                            what.replace('"', "'"),
                            evals,
                            evals
                        );
                        return;
                    }
                    break; // a problem of another property: this history is over, the other check reports it
                }
            }
        }
    }
    // C15: configuring read-only caches on paths that do not exist creates nothing, and neither do lookups through them
    if wants("C15") {
        for shards in [1usize, 3] {
            evals += 1;
            let root = tempfile::tempdir().unwrap();
            let missing = root.path().join("not").join("there");
            let mut b = CacheBuilder::new();
            b.plain_writer(root.path().join("w"), 1000);
            b.reader(&missing, shards);
            let cache = b.build();
            let _ = cache.get(key_of("alpha"));
            let _ = cache.touch(key_of("alpha"));
            let mut rb = kismet_cache::ReadOnlyCacheBuilder::new();
            rb.cache(&missing, shards);
            let ro = rb.build();
            let _ = ro.get(key_of("alpha"));
            let _ = ro.touch(key_of("alpha"));
            if root.path().join("not").exists() {
                println!(
                    "{{\"found\":{{\"property\":\"C15\",\"front\":\"read-only cache with {} shard(s) on a missing path\",\"history\":\"build; get; touch\",\"what\":\"the read-only directory (or an ancestor) was created\"}},\"evaluations\":{},\"distinct_nontrivial\":{}}}",
                    shards, evals, evals
                );
                return;
            }
        }
    }
    println!("{{\"found\":null,\"evaluations\":{},\"distinct_nontrivial\":{}}}", evals, evals);
}
