//! C16: names from a small grammar through the real plain / sharded caches inside a sentinel tree.
//! Either InvalidInput with an unchanged tree, or every effect confined to the one expected file
//! directly inside the cache directory (or one of the shard directories).
use kismet_cache::{plain, sharded, CacheBuilder, Key};
use std::collections::BTreeMap;
use std::io::Write;
use std::path::{Path, PathBuf};

fn snapshot(root: &Path) -> BTreeMap<PathBuf, (bool, u64)> {
    fn walk(p: &Path, out: &mut BTreeMap<PathBuf, (bool, u64)>) {
        if let Ok(rd) = std::fs::read_dir(p) {
            for e in rd.flatten() {
                let path = e.path();
                let md = match std::fs::symlink_metadata(&path) {
                    Ok(m) => m,
                    Err(_) => continue,
                };
                out.insert(path.clone(), (md.is_dir(), md.len()));
                if md.is_dir() {
                    walk(&path, out);
                }
            }
        }
    }
    let mut out = BTreeMap::new();
    walk(root, &mut out);
    out
}

fn esc(s: &str) -> String {
    s.chars().flat_map(|c| c.escape_default()).collect::<String>().replace('"', "'")
}

pub fn run(_args: &[String]) {
    let names: Vec<String> = vec![
        "", ".x", "/abs", "\\x", ".", "..", "a/b", "x/../../escaped", "a/", "a//b", "../up", "sub/.hidden", "normal", "ünï", "a\\b", "with space",
    ]
    .into_iter()
    .map(String::from)
    .chain(std::iter::once("long".repeat(40)))
    .collect();
    let mut evals = 0u64;
    for front in ["plain", "sharded", "stacked-plain", "stacked-sharded"] {
        for name in &names {
            for op in ["set", "put", "get", "touch", "ensure"] {
                if op == "ensure" && !front.starts_with("stacked") {
                    continue;
                }
                evals += 1;
                let root = tempfile::tempdir().unwrap();
                let cache_dir = root.path().join("cache");
                std::fs::create_dir_all(&cache_dir).unwrap();
                std::fs::File::create(root.path().join("outside_file")).unwrap().write_all(b"o").unwrap();
                let src = root.path().join("src_value");
                std::fs::File::create(&src).unwrap().write_all(b"v").unwrap();
                let before = snapshot(root.path());
                let key = Key::new(name, 1, 2);
                let res: std::io::Result<()> = if front == "plain" {
                    let c = plain::Cache::new(cache_dir.clone(), 100);
                    match op {
                        "set" => c.set(name, &src),
                        "put" => c.put(name, &src),
                        "get" => c.get(name).map(|_| ()),
                        _ => c.touch(name).map(|_| ()),
                    }
                } else if front.starts_with("stacked") {
                    // a stacked cache with a write side only (a read-only side would validate the name again)
                    let mut b = CacheBuilder::new();
                    if front == "stacked-plain" {
                        b.plain_writer(&cache_dir, 100);
                    } else {
                        b.sharded_writer(&cache_dir, 4, 100);
                    }
                    let c = b.build();
                    match op {
                        "set" => c.set(key, &src),
                        "put" => c.put(key, &src),
                        "get" => c.get(key).map(|_| ()),
                        "ensure" => c.ensure(key, |dst| dst.write_all(b"populated")).map(|_| ()),
                        _ => c.touch(key).map(|_| ()),
                    }
                } else {
                    let c = sharded::Cache::new(cache_dir.clone(), 4, 100);
                    match op {
                        "set" => c.set(key, &src),
                        "put" => c.put(key, &src),
                        "get" => c.get(key).map(|_| ()),
                        _ => c.touch(key).map(|_| ()),
                    }
                };
                let after = snapshot(root.path());
                let bytes = name.as_bytes();
                let reserved = bytes.is_empty() || bytes[0] == b'.' || bytes[0] == b'/' || bytes[0] == b'\\';
                let mut problem: Option<String> = None;
                if reserved {
                    match &res {
                        Err(e) if e.kind() == std::io::ErrorKind::InvalidInput => {}
                        other => problem = Some(format!("reserved name not rejected with InvalidInput: {:?}", other.as_ref().err().map(|e| e.kind()))),
                    }
                    if before != after {
                        problem = Some("reserved name changed the tree".into());
                    }
                } else {
                    // accepted (or failed for another reason): every created/changed/removed path must be
                    // the consumed source, a `.kismet*` internal, or ONE regular file named exactly `name`
                    // directly inside the cache directory / a shard directory.
                    for (p, v) in after.iter() {
                        if before.get(p) == Some(v) {
                            continue;
                        }
                        let rel = p.strip_prefix(&cache_dir).ok();
                        let ok = match rel {
                            None => false,
                            Some(r) => {
                                let comps: Vec<String> = r.components().map(|c| c.as_os_str().to_string_lossy().to_string()).collect();
                                let internal = |c: &String| c.starts_with(".kismet");
                                (comps.len() == 1 && (internal(&comps[0]) || (&comps[0] == name && !v.0)))
                                    || (comps.len() == 2 && internal(&comps[0]) && (internal(&comps[1]) || (&comps[1] == name && !v.0)))
                            }
                        };
                        if !ok {
                            problem = Some(format!("effect outside the single expected entry: {}", esc(&p.strip_prefix(root.path()).unwrap().to_string_lossy())));
                            break;
                        }
                    }
                    for p in before.keys() {
                        if !after.contains_key(p) && p != &src {
                            problem = Some(format!("removed {}", esc(&p.to_string_lossy())));
                        }
                    }
                }
                if let Some(what) = problem {
                    println!(
                        "{{\"found\":{{\"front_end\":\"{}\",\"operation\":\"{}\",\"name\":\"{}\",\"result\":\"{}\",\"what\":\"{}\"}},\"evaluations\":{},\"distinct_nontrivial\":{}}}",
                        front,
                        op,
                        esc(name),
                        match &res { Ok(()) => "Ok".to_string(), Err(e) => format!("Err({:?})", e.kind()) },
                        what,
                        evals,
                        evals
                    );
                    return;
                }
            }
        }
    }
    println!("{{\"found\":null,\"evaluations\":{},\"distinct_nontrivial\":{}}}", evals, evals);
}
