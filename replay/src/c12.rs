//! C12: observe where the real sharded cache stores and finds entries; compare with an
//! independent reimplementation of the documented mapping (constants come from the caller, who
//! derives them with hashlib).
use kismet_cache::sharded::Cache;
use kismet_cache::Key;
use std::io::Write;

fn mix(m: u64, a: u64, v: u64) -> u64 {
    v.wrapping_mul(m).wrapping_add(a)
}
fn reduce(x: u64, n: usize) -> usize {
    (((n as u128) * (x as u128)) >> 64) as usize
}
fn hex4(i: usize) -> String {
    let digits = b"0123456789abcdef";
    let mut s = vec![];
    let mut v = i;
    loop {
        s.push(digits[v % 16]);
        v /= 16;
        if v == 0 {
            break;
        }
    }
    while s.len() < 4 {
        s.push(b'0');
    }
    s.reverse();
    format!(".kismet_{}", String::from_utf8(s).unwrap())
}

pub fn run(args: &[String]) {
    let p = |i: usize| u64::from_str_radix(args[i].trim_start_matches("0x"), 16).unwrap();
    let (pm, pa, sm, sa) = (p(0), p(1), p(2), p(3));
    let rounds: u64 = args.get(4).and_then(|s| s.parse().ok()).unwrap_or(200);
    let mut evals = 0u64;
    let mut seed = 0x9e3779b97f4a7c15u64;
    let mut next = move || {
        seed ^= seed << 13;
        seed ^= seed >> 7;
        seed ^= seed << 17;
        seed
    };
    let ns = [0usize, 1, 2, 3, 7, 16, 255, 256, 257, 4096, 65537];
    let specials = [0u64, 1, 1 << 63, u64::MAX, u64::MAX / 3];
    for round in 0..rounds {
        let n_in = ns[(round as usize) % ns.len()];
        let n = if n_in < 2 { 2 } else { n_in };
        let (h, s) = if (round as usize) < specials.len() * specials.len() {
            (specials[round as usize % specials.len()], specials[(round as usize / specials.len()) % specials.len()])
        } else {
            (next(), next())
        };
        let e1 = reduce(mix(pm, pa, h), n);
        let mut e2 = reduce(mix(sm, sa, s), n);
        if e2 == e1 {
            e2 = if e2 + 1 < n { e2 + 1 } else { 0 };
        }
        evals += 1;
        let dir = tempfile::tempdir().unwrap();
        let cache = Cache::new(dir.path().to_owned(), n_in, 1_000_000);
        let key = Key::new("k", h, s);
        // 1. a put through a fresh handle lands in the primary candidate
        let src = dir.path().join("srcfile");
        std::fs::File::create(&src).unwrap().write_all(b"v").unwrap();
        cache.put(key, &src).unwrap();
        let mut found = vec![];
        for ent in std::fs::read_dir(dir.path()).unwrap().flatten() {
            if ent.path().join("k").exists() {
                found.push(ent.file_name().to_string_lossy().to_string());
            }
        }
        let fail = |what: &str, got: String| {
            println!(
                "{{\"found\":{{\"hash\":\"0x{:x}\",\"secondary_hash\":\"0x{:x}\",\"num_shards\":{},\"expected_primary\":\"{}\",\"expected_secondary\":\"{}\",\"what\":\"{}\",\"observed\":\"{}\"}},\"evaluations\":{},\"distinct_nontrivial\":{}}}",
                h, s, n_in, hex4(e1), hex4(e2), what, got, evals, evals
            );
        };
        if found != vec![hex4(e1)] {
            fail("put through a fresh handle stored the entry elsewhere than the primary candidate", format!("{:?}", found).replace('"', "'"));
            return;
        }
        // 2. an entry sitting only in the secondary candidate is found; one sitting elsewhere is not
        std::fs::remove_file(dir.path().join(hex4(e1)).join("k")).unwrap();
        std::fs::create_dir_all(dir.path().join(hex4(e2))).unwrap();
        std::fs::File::create(dir.path().join(hex4(e2)).join("k")).unwrap();
        if cache.get(key).unwrap().is_none() {
            fail("get does not find an entry stored in the secondary candidate", "miss".into());
            return;
        }
        std::fs::remove_file(dir.path().join(hex4(e2)).join("k")).unwrap();
        if n > 2 {
            let mut other = 0;
            while other == e1 || other == e2 {
                other += 1;
            }
            std::fs::create_dir_all(dir.path().join(hex4(other))).unwrap();
            std::fs::File::create(dir.path().join(hex4(other)).join("k")).unwrap();
            if cache.get(key).unwrap().is_some() {
                fail("get found an entry stored in a shard that is neither candidate", hex4(other));
                return;
            }
        }
    }
    println!("{{\"found\":null,\"evaluations\":{},\"distinct_nontrivial\":{}}}", evals, evals);
}
