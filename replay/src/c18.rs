//! C18 (bounded stand-in, run under `strace -e inject=…` by tools/replay.py::c18_search): ONE operation of the real
//! crate with ONE of its own system calls failing (EIO), then a look at the outcome:
//!   * no panic (except the documented one: a failed fsync of a value handed over by path);
//!   * Ok  => the effect is there (the key reads back as the whole expected value);
//!   * Err => nothing half-done is visible, and re-issuing the operation without the fault succeeds;
//!   * whatever is visible under a key name is a complete, read-only value; the library's own temporary files are gone.
//! The operation is bracketed by marker calls (`stat("/kv-marker/…")`) so that the driver can aim the fault at the
//! k-th call of a kind *inside* the operation.  Prints {"outcome":…,"problems":[…]}.
use kismet_cache::{CacheBuilder, CacheHit, CacheHitAction, Key};
use std::io::{Read, Write};
use std::os::unix::fs::PermissionsExt;
use std::path::{Path, PathBuf};

const VALUE: &[u8] = b"the quick brown fox jumps over the lazy dog; the quick brown fox jumps over the lazy dog";

fn mark(what: &str) {
    let _ = std::fs::metadata(format!("/kv-marker/{}", what));
}

fn stage(dir: &Path, name: &str) -> PathBuf {
    std::fs::create_dir_all(dir).unwrap();
    let p = dir.join(name);
    std::fs::File::create(&p).unwrap().write_all(VALUE).unwrap();
    p
}

fn read_all(mut f: std::fs::File) -> Vec<u8> {
    let mut v = Vec::new();
    let _ = f.read_to_end(&mut v);
    v
}

/// Everything directly inside `dir` (and its shard subdirectories) that is named like a key.
fn key_files(dir: &Path, out: &mut Vec<PathBuf>) {
    if let Ok(rd) = std::fs::read_dir(dir) {
        for e in rd.flatten() {
            let p = e.path();
            let n = e.file_name();
            let hidden = n.to_string_lossy().starts_with('.');
            if p.is_dir() {
                if n != ".kismet_temp" {
                    key_files(&p, out);
                }
            } else if !hidden {
                out.push(p);
            }
        }
    }
}

fn temp_files(dir: &Path, out: &mut Vec<PathBuf>) {
    if let Ok(rd) = std::fs::read_dir(dir) {
        for e in rd.flatten() {
            let p = e.path();
            if p.is_dir() {
                if e.file_name() == ".kismet_temp" {
                    if let Ok(t) = std::fs::read_dir(&p) {
                        out.extend(t.flatten().map(|x| x.path()));
                    }
                } else {
                    temp_files(&p, out);
                }
            }
        }
    }
}

pub fn run(args: &[String]) {
    let scenario = args.first().map(|s| s.as_str()).unwrap_or("stack-put");
    let root = tempfile::tempdir().unwrap();
    let wdir = root.path().join("w");
    let rdir = root.path().join("r");
    let stage_dir = root.path().join("staging"); // the caller's own files: on the same filesystem, outside the cache
    std::fs::create_dir_all(&wdir).unwrap();
    std::fs::create_dir_all(&rdir).unwrap();
    let sharded = scenario.starts_with("sharded");
    let mut b = CacheBuilder::new();
    if sharded {
        b.sharded_writer(&wdir, 3, 90_000_000);
    } else {
        b.plain_writer(&wdir, 30_000_000);
    }
    b.plain_reader(&rdir);
    if scenario.ends_with("-checked") {
        b.byte_equality_checker();
    }
    let cache = b.build();
    let key = Key::new("thekey", 0x1111_2222_3333_4444, 0x9999_8888_7777_6666);
    let op = scenario.split('-').nth(1).unwrap_or("put").to_string();
    // pre-state
    let in_reader = matches!(op.as_str(), "promote" | "gethit");
    let in_writer = matches!(op.as_str(), "putexisting" | "gethit" | "touch" | "ensurehit");
    if in_reader {
        std::fs::File::create(rdir.join("thekey")).unwrap().write_all(VALUE).unwrap();
    }
    if in_writer {
        let v = stage(&stage_dir, "pre");
        cache.set(key, &v).unwrap();
    }
    // make sure lazily created directories exist (their creation has its own scenarios: `*-fresh`)
    if !scenario.ends_with("-fresh") {
        let v = stage(&stage_dir, "warm");
        cache.set(Key::new("warm", 1, 2), &v).unwrap();
        let _ = cache.get(Key::new("warm", 1, 2));
    }
    let src = stage(&stage_dir, "src");

    let do_op = |cache: &kismet_cache::Cache, src: &Path| -> std::io::Result<Option<std::fs::File>> {
        match op.as_str() {
            "set" => cache.set(key, src).map(|_| None),
            "put" | "putexisting" => cache.put(key, src).map(|_| None),
            "get" | "gethit" => cache.get(key),
            "touch" => cache.touch(key).map(|_| None),
            "ensure" | "ensurehit" | "promote" => cache.ensure(key, |dst| dst.write_all(VALUE)).map(Some),
            "replace" => cache
                .get_or_update(
                    key,
                    |_h: CacheHit| CacheHitAction::Replace,
                    |dst, _old| dst.write_all(VALUE),
                )
                .map(Some),
            _ => panic!("unknown op"),
        }
    };

    mark("begin");
    let res = std::panic::catch_unwind(std::panic::AssertUnwindSafe(|| do_op(&cache, &src)));
    mark("end");
    // the handle is read only now, outside the faulted region
    let res = res.map(|r| r.map(|o| o.map(read_all)));

    let mut problems: Vec<String> = Vec::new();
    // is the key visible in the write cache right after the operation (before any retry)?
    let visible = {
        let mut kf = Vec::new();
        key_files(&wdir, &mut kf);
        kf.iter().any(|p| p.file_name().map(|n| n == "thekey").unwrap_or(false))
    };
    let outcome = match &res {
        Err(_) => "panic",
        Ok(Ok(_)) => "ok",
        Ok(Err(_)) => "err",
    };
    let publishes = matches!(op.as_str(), "set" | "put" | "putexisting" | "ensure" | "promote" | "replace" | "ensurehit");
    match &res {
        Ok(Ok(ret)) => {
            if let Some(bytes) = ret {
                if bytes != VALUE {
                    problems.push(format!("the call succeeded but the returned handle reads {} bytes instead of the whole value", bytes.len()));
                }
            }
            if publishes {
                match cache.get(key) {
                    Ok(Some(f)) => {
                        if read_all(f) != VALUE {
                            problems.push("the call reported success but the key does not read back as the whole value".into());
                        }
                    }
                    Ok(None) => problems.push("the call reported success but the key is not in the cache".into()),
                    Err(e) => problems.push(format!("the call reported success but a lookup fails afterwards: {}", e)),
                }
                if matches!(op.as_str(), "ensure" | "promote" | "replace" | "set" | "put") {
                    let mut kf = Vec::new();
                    key_files(&wdir, &mut kf);
                    if !kf.iter().any(|p| p.file_name().map(|n| n == "thekey").unwrap_or(false)) {
                        problems.push("the call reported success but nothing was stored in the write cache".into());
                    }
                }
            }
        }
        Ok(Err(_)) => {
            // re-issue without the fault (the source may have been consumed: stage it again)
            let src2 = stage(&stage_dir, "src2");
            match std::panic::catch_unwind(std::panic::AssertUnwindSafe(|| do_op(&cache, &src2))) {
                Ok(Ok(_)) => {}
                Ok(Err(e)) => problems.push(format!("re-issuing the operation once the fault is gone fails: {}", e)),
                Err(_) => problems.push("re-issuing the operation once the fault is gone panics".into()),
            }
        }
        Err(_) => {}
    }
    // validity of whatever is visible, and no leaked temporary files of the library
    let mut kf = Vec::new();
    key_files(&wdir, &mut kf);
    for p in kf {
        let md = std::fs::metadata(&p).unwrap();
        let bytes = std::fs::read(&p).unwrap_or_default();
        if bytes != VALUE {
            problems.push(format!("{} holds {} bytes, not a complete value", p.strip_prefix(root.path()).unwrap().display(), bytes.len()));
        }
        if md.permissions().mode() & 0o222 != 0 {
            problems.push(format!("{} is writable (mode {:o})", p.strip_prefix(root.path()).unwrap().display(), md.permissions().mode() & 0o777));
        }
    }
    drop(res);
    let mut tf = Vec::new();
    temp_files(&wdir, &mut tf);
    if !tf.is_empty() {
        problems.push(format!("{} temporary file(s) of the library left behind in .kismet_temp", tf.len()));
    }
    let plist = problems.iter().map(|p| format!("\"{}\"", p.replace('"', "'"))).collect::<Vec<_>>().join(",");
    println!("{{\"outcome\":\"{}\",\"visible_after_op\":{},\"was_in_write_cache\":{},\"problems\":[{}]}}", outcome, visible, in_writer, plist);
}
