//! C10 (best effort): with capacity k and P = max(1, k/3), a fresh thread writing to a plain
//! cache must never leave more than k + P files after a write.  Random draws cannot be forced
//! from outside the crate, so this only exposes gross defects.
use kismet_cache::plain::Cache;
use std::io::Write;

pub fn run(args: &[String]) {
    let rounds: usize = args.get(0).and_then(|s| s.parse().ok()).unwrap_or(40);
    let mut evals = 0u64;
    for k in [0usize, 1, 2, 3, 4, 6, 9] {
        let p = std::cmp::max(1, k / 3);
        for _ in 0..rounds {
            let res = std::thread::spawn(move || {
                let dir = tempfile::tempdir().unwrap();
                let cache = Cache::new(dir.path().to_owned(), k);
                let tmp = cache.temp_dir().unwrap().into_owned();
                for i in 0..(3 * (k + p) + 3) {
                    let src = tmp.join(format!("src{}", i));
                    std::fs::File::create(&src).unwrap().write_all(b"v").unwrap();
                    cache.set(&format!("key{}", i), &src).unwrap();
                    let count = std::fs::read_dir(dir.path()).unwrap().flatten().filter(|e| e.path().is_file()).count();
                    if count > k + p {
                        return Some((i, count));
                    }
                }
                None
            })
            .join()
            .unwrap();
            evals += 1;
            if let Some((i, count)) = res {
                println!(
                    "{{\"found\":{{\"capacity\":{},\"period\":{},\"write_index\":{},\"files_after_write\":{},\"bound\":{}}},\"evaluations\":{},\"distinct_nontrivial\":{}}}",
                    k, p, i, count, k + p, evals, evals
                );
                return;
            }
        }
    }
    println!("{{\"found\":null,\"evaluations\":{},\"distinct_nontrivial\":{}}}", evals, evals);
}
