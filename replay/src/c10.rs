//! C10 (best effort): with capacity k and P = max(1, k/3), a fresh thread writing to a plain
//! cache must never leave more than k + P files after a write.  Random draws cannot be forced
//! from outside the crate, so this only exposes gross defects.
use kismet_cache::plain::Cache;
use std::io::Write;

pub fn run(args: &[String]) {
    let rounds: usize = args.get(0).and_then(|s| s.parse().ok()).unwrap_or(40);
    let mut evals = 0u64;
    for k in [0usize, 1, 2, 3, 4, 6, 9] {
        let p = std::cmp::max(1, k / 3);
        for _ in 0..rounds {
            let res = std::thread::spawn(move || {
                let dir = tempfile::tempdir().unwrap();
                let cache = Cache::new(dir.path().to_owned(), k);
                let tmp = cache.temp_dir().unwrap().into_owned();
                for i in 0..(3 * (k + p) + 3) {
                    let src = tmp.join(format!("src{}", i));
                    std::fs::File::create(&src).unwrap().write_all(b"v").unwrap();
                    cache.set(&format!("key{}", i), &src).unwrap();
                    let count = std::fs::read_dir(dir.path()).unwrap().flatten().filter(|e| e.path().is_file()).count();
                    if count > k + p {
                        return Some((i, count));
                    }
                }
                None
            })
            .join()
            .unwrap();
            evals += 1;
            if let Some((i, count)) = res {
                println!(
                    "{{\"found\":{{\"capacity\":{},\"period\":{},\"write_index\":{},\"files_after_write\":{},\"bound\":{}}},\"evaluations\":{},\"distinct_nontrivial\":{}}}",
                    k, p, i, count, k + p, evals, evals
                );
                return;
            }
        }
    }
    // huge capacities: a maintenance pass must neither panic nor overflow (nor delete anything); repeated puts of a
    // cached key are writes too: with capacity 0 every one of them maintains
    for cap in [usize::MAX, usize::MAX / 2, isize::MAX as usize, usize::MAX - 1] {
        evals += 1;
        let dir = tempfile::tempdir().unwrap();
        for i in 0..3 {
            std::fs::File::create(dir.path().join(format!("k{}", i))).unwrap().write_all(b"v").unwrap();
        }
        let d = dir.path().to_owned();
        let r = std::panic::catch_unwind(move || kismet_cache::raw_cache::prune(d, cap));
        let left = std::fs::read_dir(dir.path()).unwrap().flatten().filter(|e| e.path().is_file()).count();
        let what = match r {
            Err(_) => Some("maintenance panics"),
            Ok(Err(_)) => Some("maintenance fails"),
            Ok(Ok(_)) if left != 3 => Some("maintenance deleted files of a directory within capacity"),
            _ => None,
        };
        if let Some(what) = what {
            println!(
                "{{\"found\":{{\"capacity\":\"{}\",\"files\":3,\"what\":\"{}\"}},\"evaluations\":{},\"distinct_nontrivial\":{}}}",
                cap, what, evals, evals
            );
            return;
        }
    }
    {
        evals += 1;
        let dir = tempfile::tempdir().unwrap();
        let cache = Cache::new(dir.path().to_owned(), 0);
        let tmp = cache.temp_dir().unwrap().into_owned();
        let stage = |n: &str| {
            let p = tmp.join(n);
            std::fs::File::create(&p).unwrap().write_all(b"v").unwrap();
            p
        };
        cache.put("k", &stage("s0")).unwrap();
        // foreign files appear (another process wrote them); the next write, a put of a key that may or may not still
        // be cached, must maintain first: capacity 0, period 1
        for i in 0..5 {
            std::fs::File::create(dir.path().join(format!("foreign{}", i))).unwrap().write_all(b"v").unwrap();
        }
        cache.put("k", &stage("s1")).unwrap();
        cache.put("k", &stage("s2")).unwrap();
        let count = std::fs::read_dir(dir.path()).unwrap().flatten().filter(|e| e.path().is_file()).count();
        if count > 1 {
            println!(
                "{{\"found\":{{\"capacity\":0,\"what\":\"{} files left after two puts of one key into a directory that another process filled: a repeated put did not maintain\"}},\"evaluations\":{},\"distinct_nontrivial\":{}}}",
                count, evals, evals
            );
            return;
        }
    }
    println!("{{\"found\":null,\"evaluations\":{},\"distinct_nontrivial\":{}}}", evals, evals);
}
