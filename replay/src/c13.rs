//! C13/C14/C19: the configuration matrix of Cache::get_or_update on the real crate: write side in {none, plain,
//! sharded} x one or two read-only levels x where the key lives x judge action x populate outcome x checker.
//! Checks the documented hit actions: Accept publishes nothing, Promote of a read-only hit leaves an identical
//! copy in the write cache, Replace / miss store the populated value; handles are read-only at offset 0.
use kismet_cache::{CacheBuilder, CacheHit, CacheHitAction, Key};
use std::io::{Error, ErrorKind, Read, Seek, SeekFrom, Write};
use std::path::Path;

fn put_file(dir: &Path, name: &str, bytes: &[u8]) {
    std::fs::create_dir_all(dir).unwrap();
    std::fs::File::create(dir.join(name)).unwrap().write_all(bytes).unwrap();
}

fn all_named_are(dir: &Path, name: &str, want: &[u8]) -> bool {
    let mut ok = true;
    if let Ok(rd) = std::fs::read_dir(dir) {
        for e in rd.flatten() {
            let p = e.path();
            if p.is_dir() {
                if p.file_name().map(|f| f != ".kismet_temp").unwrap_or(false) {
                    ok &= all_named_are(&p, name, want);
                }
            } else if p.file_name().map(|f| f == name).unwrap_or(false) {
                ok &= std::fs::read(&p).map(|b| b == want).unwrap_or(false);
            }
        }
    }
    ok
}

fn count_named(dir: &Path, name: &str) -> usize {
    let mut n = 0;
    if let Ok(rd) = std::fs::read_dir(dir) {
        for e in rd.flatten() {
            let p = e.path();
            if p.is_dir() {
                if p.file_name().map(|f| f != ".kismet_temp").unwrap_or(false) {
                    n += count_named(&p, name);
                }
            } else if p.file_name().map(|f| f == name).unwrap_or(false) {
                n += 1;
            }
        }
    }
    n
}

pub fn run(_args: &[String]) {
    let mut evals = 0u64;
    let name = "thekey";
    for writer in ["none", "plain", "sharded"] {
        for in_writer in [false, true] {
            if writer == "none" && in_writer {
                continue;
            }
            for in_reader in [false, true] {
                for action in ["accept", "promote", "replace"] {
                    for pop in ["same", "diff", "notfound", "error"] {
                        // 0: no checker; 1: the stock byte-equality checker; 2: a custom checker that rejects a difference
                        // with an error of kind NotFound (the kind `populate` uses to opt out: the two must not be confused)
                        for checker_mode in [0u8, 1, 2] {
                            let checker = checker_mode != 0;
                            evals += 1;
                            let root = tempfile::tempdir().unwrap();
                            let wdir = root.path().join("w");
                            let rdir = root.path().join("r");
                            std::fs::create_dir_all(&wdir).unwrap();
                            std::fs::create_dir_all(&rdir).unwrap();
                            if in_reader {
                                put_file(&rdir, name, b"AAAA");
                            }
                            let mut b = CacheBuilder::new();
                            match writer {
                                "plain" => {
                                    b.plain_writer(&wdir, 100);
                                }
                                "sharded" => {
                                    b.sharded_writer(&wdir, 4, 100);
                                }
                                _ => {}
                            }
                            b.plain_reader(&rdir);
                            if checker_mode == 1 {
                                b.byte_equality_checker();
                            } else if checker_mode == 2 {
                                b.consistency_checker(|x: &mut std::fs::File, y: &mut std::fs::File| {
                                    let (mut bx, mut by) = (Vec::new(), Vec::new());
                                    x.read_to_end(&mut bx)?;
                                    y.read_to_end(&mut by)?;
                                    if bx == by {
                                        Ok(())
                                    } else {
                                        Err(Error::new(ErrorKind::NotFound, "copies differ"))
                                    }
                                });
                            }
                            let cache = b.build();
                            let key = Key::new(name, 11, 22);
                            if in_writer {
                                let t = tempfile::NamedTempFile::new_in(root.path()).unwrap();
                                t.as_file().write_all(b"AAAA").unwrap();
                                cache.set(key, t.path()).unwrap();
                            }
                            let before = count_named(&wdir, name);
                            let mut judged: Option<bool> = None;
                            let res = cache.get_or_update(
                                key,
                                |h| {
                                    judged = Some(matches!(h, CacheHit::Primary(_)));
                                    // a judge may consume the hit: read two bytes
                                    let mut two = [0u8; 2];
                                    match h {
                                        CacheHit::Primary(f) | CacheHit::Secondary(f) => {
                                            let _ = f.read(&mut two);
                                        }
                                    }
                                    match action {
                                        "accept" => CacheHitAction::Accept,
                                        "promote" => CacheHitAction::Promote,
                                        _ => CacheHitAction::Replace,
                                    }
                                },
                                |dst, _old| match pop {
                                    "same" => dst.write_all(b"AAAA"),
                                    "diff" => dst.write_all(b"BBBB"),
                                    "notfound" => Err(Error::new(ErrorKind::NotFound, "nf")),
                                    _ => Err(Error::new(ErrorKind::Other, "boom")),
                                },
                            );
                            let after = count_named(&wdir, name);
                            let hit = in_writer || in_reader;
                            let keeps_hit = hit && action != "replace";
                            let populated: &[u8] = if pop == "diff" { b"BBBB" } else { b"AAAA" };
                            let mut problem: Option<String> = None;
                            // when must the call fail?
                            let must_fail = if keeps_hit {
                                checker && (pop == "diff" || pop == "error")
                            } else {
                                pop == "notfound" || pop == "error"
                            };
                            let must_succeed = !must_fail;
                            match res {
                                Err(_) if must_succeed => problem = Some("the call failed although nothing was wrong".into()),
                                Err(_) => {}
                                Ok(_) if must_fail => {
                                    problem = Some(if keeps_hit {
                                        "the call succeeded although the hit differs from the populated value, or populate failed".into()
                                    } else {
                                        "the call succeeded although populate failed".into()
                                    })
                                }
                                Ok(mut f) => {
                                    let want: &[u8] = if keeps_hit { b"AAAA" } else { populated };
                                    if f.seek(SeekFrom::Current(0)).unwrap() != 0 {
                                        problem = Some("returned handle is not at offset 0".into());
                                    }
                                    let mut s = Vec::new();
                                    f.read_to_end(&mut s).unwrap();
                                    if problem.is_none() && s != want {
                                        problem = Some("returned handle does not read the expected whole value".into());
                                    }
                                    if (keeps_hit || writer != "none") && f.write(b"x").is_ok() {
                                        problem = Some("a handle on cached data is writable".into());
                                    }
                                    if hit && judged != Some(in_writer) {
                                        problem = Some("hit kind passed to the judge is wrong".into());
                                    }
                                    if hit && action == "accept" && after != before {
                                        problem = Some("Accept changed the write cache".into());
                                    }
                                    if hit && action == "promote" && !in_writer && writer != "none" && after == 0 {
                                        problem = Some("Promote of a read-only hit left no copy in the write cache".into());
                                    }
                                    if keeps_hit && !all_named_are(&wdir, name, b"AAAA") {
                                        problem = Some("the write cache holds a copy that is not the whole value".into());
                                    }
                                    if !keeps_hit && writer != "none" && (after == 0 || !all_named_are(&wdir, name, populated)) {
                                        problem = Some("populated value was not stored in the write cache".into());
                                    }
                                }
                            }
                            if let Some(what) = problem {
                                println!(
                                    "{{\"found\":{{\"writer\":\"{}\",\"key_in_writer\":{},\"key_in_reader\":{},\"action\":\"{}\",\"populate\":\"{}\",\"checker\":{},\"what\":\"{}\"}},\"evaluations\":{},\"distinct_nontrivial\":{}}}",
                                    writer, in_writer, in_reader, action, pop, checker, what, evals, evals
                                );
                                return;
                            }
                        }
                    }
                }
            }
        }
    }
    if let Some(found) = large_values(&mut evals) {
        println!("{{\"found\":{},\"evaluations\":{},\"distinct_nontrivial\":{}}}", found, evals, evals);
        return;
    }
    if let Some(found) = stacks(&mut evals) {
        println!("{{\"found\":{},\"evaluations\":{},\"distinct_nontrivial\":{}}}", found, evals, evals);
        return;
    }
    println!("{{\"found\":null,\"evaluations\":{},\"distinct_nontrivial\":{}}}", evals, evals);
}

/// Lookups through stacks of three read-only levels (and an optional write side): `get` returns the copy of the
/// first level that holds one and, with a checker, succeeds exactly when all copies are equal; `touch` reports
/// presence and marks the first copy only.
/// The stock byte-equality checker on large values: two read-only copies of 128 KiB (and of 128 KiB + 1) that differ
/// only in their last byte must be rejected, identical ones accepted.
fn large_values(evals: &mut u64) -> Option<String> {
    for size in [131072usize, 131073, 65536, 70000] {
        for differ in [false, true] {
            *evals += 1;
            let root = tempfile::tempdir().unwrap();
            let mut b = CacheBuilder::new();
            let mut bytes = vec![7u8; size];
            for lvl in 0..2 {
                let d = root.path().join(format!("r{}", lvl));
                std::fs::create_dir_all(&d).unwrap();
                if lvl == 1 && differ {
                    let n = bytes.len();
                    bytes[n - 1] = 8;
                }
                std::fs::File::create(d.join("big")).unwrap().write_all(&bytes).unwrap();
                b.plain_reader(&d);
            }
            b.byte_equality_checker();
            let cache = b.build();
            let r = cache.get(Key::new("big", 3, 4));
            let problem = match (r.is_ok(), differ) {
                (true, true) => Some("get succeeded although the two copies differ in their last byte"),
                (false, false) => Some("get failed although the two copies are identical"),
                _ => None,
            };
            if let Some(what) = problem {
                return Some(format!("{{\"stack\":\"two plain readers + byte_equality_checker\",\"value_size\":{},\"copies_differ\":{},\"what\":\"{}\"}}", size, differ, what));
            }
        }
    }
    None
}

fn stacks(evals: &mut u64) -> Option<String> {
    let name = "thekey";
    let old = filetime::FileTime::from_unix_time(1_000_000_000, 0);
    for writer in ["none", "empty", "holding"] {
        for mask in 0u8..8 {
            for checker in [false, true] {
                for same in [true, false] {
                    if !checker && !same {
                        continue;
                    }
                    *evals += 1;
                    let root = tempfile::tempdir().unwrap();
                    let wdir = root.path().join("w");
                    std::fs::create_dir_all(&wdir).unwrap();
                    let mut b = CacheBuilder::new();
                    if writer != "none" {
                        b.plain_writer(&wdir, 100);
                    }
                    let mut holders: Vec<(std::path::PathBuf, Vec<u8>)> = Vec::new();
                    if writer == "holding" {
                        holders.push((wdir.join(name), if same { b"SAME".to_vec() } else { b"W000".to_vec() }));
                    }
                    // half of the configurations register the readers one by one, the other half through the
                    // iterator-taking method (which is not under contract)
                    let all_dirs: Vec<std::path::PathBuf> = (0..3u8).map(|l| root.path().join(format!("r{}", l))).collect();
                    if !checker {
                        for d in all_dirs.iter() {
                            std::fs::create_dir_all(d).unwrap();
                        }
                        b.plain_readers(all_dirs.iter());
                    }
                    for lvl in 0..3u8 {
                        let d = root.path().join(format!("r{}", lvl));
                        std::fs::create_dir_all(&d).unwrap();
                        if checker {
                            b.plain_reader(&d);
                        }
                        if mask & (1 << lvl) != 0 {
                            holders.push((d.join(name), if same { b"SAME".to_vec() } else { format!("L{}__", lvl).into_bytes() }));
                        }
                    }
                    for (p, bytes) in holders.iter() {
                        std::fs::File::create(p).unwrap().write_all(bytes).unwrap();
                        filetime::set_file_times(p, old, old).unwrap();
                    }
                    if checker {
                        b.byte_equality_checker();
                    }
                    let cache = b.build();
                    let key = Key::new(name, 11, 22);
                    let cfg = format!(
                        "{{\"stack\":\"writer={} + 3 plain readers\",\"levels_holding_mask\":{},\"checker\":{},\"copies_equal\":{}",
                        writer, mask, checker, same
                    );
                    // touch first: it must not open or mark anything but the first copy
                    let touched = cache.touch(key);
                    let mut problem: Option<String> = None;
                    match touched {
                        Err(_) => problem = Some("touch failed".into()),
                        Ok(t) if t != !holders.is_empty() => problem = Some("touch reported the wrong presence".into()),
                        Ok(_) => {
                            for (i, (p, _)) in holders.iter().enumerate() {
                                let at = filetime::FileTime::from_last_access_time(&std::fs::metadata(p).unwrap());
                                if i == 0 && at == old {
                                    problem = Some("touch did not mark the first copy".into());
                                }
                                if i > 0 && at != old {
                                    problem = Some("touch marked a copy behind the first one".into());
                                }
                            }
                        }
                    }
                    if problem.is_none() {
                        let distinct = holders.iter().any(|(_, b)| b != &holders[0].1);
                        match cache.get(key) {
                            Err(_) if checker && distinct => {}
                            Err(_) => problem = Some("get failed although nothing was wrong".into()),
                            Ok(_) if checker && distinct => problem = Some("get succeeded although the copies differ".into()),
                            Ok(None) if !holders.is_empty() => problem = Some("get missed a key that is present".into()),
                            Ok(None) => {}
                            Ok(Some(_)) if holders.is_empty() => problem = Some("get hit a key that is absent".into()),
                            Ok(Some(mut f)) => {
                                let mut s = Vec::new();
                                if f.seek(SeekFrom::Current(0)).unwrap() != 0 {
                                    problem = Some("get returned a handle that is not at offset 0".into());
                                }
                                f.read_to_end(&mut s).unwrap();
                                if problem.is_none() && s != holders[0].1 {
                                    problem = Some("get did not return the whole first copy in lookup order".into());
                                }
                            }
                        }
                    }
                    if let Some(what) = problem {
                        return Some(format!("{},\"what\":\"{}\"}}", cfg, what));
                    }
                }
            }
        }
    }
    None
}
