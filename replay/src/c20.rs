//! C20 / C06 (bounded stand-in, run under strace by tools/replay.py): a fixed script of get / touch / set / put
//! calls through a plain, a sharded and a stacked cache whose directories were pre-populated with `n` filler
//! entries, maintenance not firing (huge capacity).  Each operation is bracketed by marker system calls
//! (`stat("/kv-marker/<front>:<op>")`, which always fail) so that the tracer can cut the system-call stream into
//! one region per operation.  The program itself judges nothing: the driver compares the regions of a run with
//! few fillers against a run with many (identical counts), looks for lock / sleep calls, and replays the
//! open/close stream of every region (peak and residual descriptors).
use kismet_cache::{plain, sharded, CacheBuilder, Key};
use std::io::Write;
use std::path::{Path, PathBuf};

fn mark(what: &str) {
    let _ = std::fs::metadata(format!("/kv-marker/{}", what));
}

/// Runs `f`; if it has not returned after five seconds the process exits with status 3 (the tracer reports the
/// operation of the last marker as one that does not complete).
fn watchdog<R>(f: impl FnOnce() -> R) -> R {
    // the wait is a futex wait with a timeout: not one of the traced calls, so it does not show up as a sleep of the operation
    let (tx, rx) = std::sync::mpsc::channel::<()>();
    std::thread::spawn(move || {
        if let Err(std::sync::mpsc::RecvTimeoutError::Timeout) = rx.recv_timeout(std::time::Duration::from_secs(5)) {
            std::process::exit(3);
        }
    });
    let r = f();
    let _ = tx.send(());
    r
}

fn fill(dir: &Path, n: usize) {
    std::fs::create_dir_all(dir).unwrap();
    for i in 0..n {
        std::fs::File::create(dir.join(format!("filler{:05}", i))).unwrap().write_all(b"f").unwrap();
    }
}

fn value_in(dir: &Path, name: &str) -> PathBuf {
    std::fs::create_dir_all(dir).unwrap();
    let p = dir.join(name);
    std::fs::File::create(&p).unwrap().write_all(b"value").unwrap();
    p
}

pub fn run(args: &[String]) {
    let n: usize = args.first().and_then(|s| s.parse().ok()).unwrap_or(0);
    let with_linked_put = args.get(1).map(|s| s == "linked").unwrap_or(false);
    let root = tempfile::tempdir().unwrap();
    let cap = 30_000_000usize; // period = capacity / 3: the trigger practically never fires during the script
    let k = |name: &'static str| Key::new(name, 0x1234_5678_9abc_def0, 0x0fed_cba9_8765_4321);

    // ---- plain -------------------------------------------------------------------------------------------
    {
        let dir = root.path().join("plain");
        fill(&dir, n);
        let c = plain::Cache::new(dir.clone(), cap);
        let tmp = c.temp_dir().unwrap().into_owned();
        let v0 = value_in(&tmp, "v0");
        c.set("warm", &v0).unwrap(); // warm-up: thread-local RNG, lazily created directories
        let v1 = value_in(&tmp, "v1");
        let v2 = value_in(&tmp, "v2");
        let v3 = value_in(&tmp, "v3");
        mark("plain:set-new");
        c.set("a", &v1).unwrap();
        mark("plain:put-new");
        c.put("b", &v2).unwrap();
        mark("plain:put-existing");
        c.put("a", &v3).unwrap();
        mark("plain:get-hit");
        drop(c.get("a").unwrap().unwrap());
        mark("plain:get-miss");
        assert!(c.get("nope").unwrap().is_none());
        mark("plain:touch-hit");
        assert!(c.touch("a").unwrap());
        mark("plain:touch-miss");
        assert!(!c.touch("nope").unwrap());
        // a writer whose own source file is gone (e.g. removed as a stale temporary file by a peer's maintenance while the
        // writer was stalled) must get an error after a constant number of calls, whatever the peers do afterwards
        let gone = tmp.join("gone-source");
        mark("plain:set-missing-source");
        watchdog(|| assert!(c.set("m", &gone).is_err()));
        mark("plain:put-missing-source");
        watchdog(|| assert!(c.put("m", &gone).is_err()));
        mark("plain:end");
    }
    // ---- sharded -----------------------------------------------------------------------------------------
    {
        let dir = root.path().join("sharded");
        let c = sharded::Cache::new(dir.clone(), 4, cap);
        let tmp = c.temp_dir(None).unwrap().into_owned();
        for (i, name) in ["w0", "w1", "w2", "w3", "w4", "w5", "w6", "w7"].iter().enumerate() {
            let v = value_in(&tmp, &format!("w{}", i));
            c.set(Key::new(name, (i as u64) << 61, (7 - i as u64) << 61), &v).unwrap(); // create the shard directories
        }
        for e in std::fs::read_dir(&dir).unwrap().flatten() {
            if e.path().is_dir() {
                fill(&e.path(), n);
            }
        }
        // a fresh handle, as a new process would have: no in-memory load estimates yet
        let c = sharded::Cache::new(dir.clone(), 4, cap);
        let v1 = value_in(&tmp, "v1");
        let v2 = value_in(&tmp, "v2");
        let v3 = value_in(&tmp, "v3");
        mark("sharded:set-new");
        c.set(k("a"), &v1).unwrap();
        mark("sharded:put-new");
        c.put(k("b"), &v2).unwrap();
        mark("sharded:put-existing");
        c.put(k("a"), &v3).unwrap();
        mark("sharded:get-hit");
        drop(c.get(k("a")).unwrap().unwrap());
        mark("sharded:get-miss");
        assert!(c.get(k("nope")).unwrap().is_none());
        mark("sharded:touch-hit");
        assert!(c.touch(k("a")).unwrap());
        mark("sharded:touch-miss");
        assert!(!c.touch(k("nope")).unwrap());
        mark("sharded:end");
    }
    // ---- stacked: plain writer, three plain readers, byte-equality checker; the key lives in all four -------
    {
        let wdir = root.path().join("sw");
        let r1 = root.path().join("sr1");
        let r2 = root.path().join("sr2");
        let r3 = root.path().join("sr3");
        fill(&wdir, n);
        fill(&r1, n);
        fill(&r2, n);
        fill(&r3, n);
        for d in [&r1, &r2, &r3] {
            std::fs::File::create(d.join("a")).unwrap().write_all(b"value").unwrap();
        }
        let mut b = CacheBuilder::new();
        b.plain_writer(&wdir, cap);
        b.plain_reader(&r1);
        b.plain_reader(&r2);
        b.plain_reader(&r3);
        b.byte_equality_checker();
        let c = b.build();
        let tmp = wdir.join(".kismet_temp");
        let v0 = value_in(&tmp, "v0");
        c.set(k("warm"), &v0).unwrap();
        let v1 = value_in(&tmp, "v1");
        let v2 = value_in(&tmp, "v2");
        let v3 = value_in(&tmp, "v3");
        mark("stacked:set-new");
        c.set(k("a"), &v1).unwrap();
        mark("stacked:put-new");
        c.put(k("b"), &v2).unwrap();
        mark("stacked:put-existing");
        c.put(k("a"), &v3).unwrap();
        mark("stacked:get-hit");
        drop(c.get(k("a")).unwrap().unwrap());
        mark("stacked:get-miss");
        assert!(c.get(k("nope")).unwrap().is_none());
        mark("stacked:touch-hit");
        assert!(c.touch(k("a")).unwrap());
        mark("stacked:touch-miss");
        assert!(!c.touch(k("nope")).unwrap());
        mark("stacked:ensure-hit");
        drop(c.ensure(k("a"), |dst| dst.write_all(b"value")).unwrap());
        mark("stacked:end");
    }
    // ---- a builder that is reused after `take()` builds caches with the default settings again (auto_sync on):
    //      the same `set` through a cache from a fresh builder and through one from a reused builder must issue the
    //      same system calls (in particular the fsync before publication)
    {
        let fresh_dir = root.path().join("fresh");
        let reused_dir = root.path().join("reused");
        let mut fb = CacheBuilder::new();
        fb.plain_writer(&fresh_dir, cap);
        let fresh = fb.build();
        let mut rb = CacheBuilder::new();
        rb.plain_writer(root.path().join("first"), cap);
        let _first = rb.take().build();
        rb.plain_writer(&reused_dir, cap);
        let reused = rb.build();
        for (tag, c, d) in [("fresh", &fresh, &fresh_dir), ("reused", &reused, &reused_dir)] {
            let tmp = d.join(".kismet_temp");
            let v0 = value_in(&tmp, "v0");
            c.set(k("warm"), &v0).unwrap();
            let v1 = value_in(&tmp, "v1");
            let v2 = value_in(&tmp, "v2");
            mark(&format!("{}:set-new", tag));
            c.set(k("a"), &v1).unwrap();
            mark(&format!("{}:ensure-miss", tag));
            drop(c.ensure(k("b"), |dst| dst.write_all(b"value")).unwrap());
            mark(&format!("{}:put-new", tag));
            c.put(k("c"), &v2).unwrap();
            mark(&format!("{}:end", tag));
        }
    }
    // ---- C06: a put onto an entry that another name still links to (e.g. a reader's backup hard link) ---------
    if with_linked_put {
        let dir = root.path().join("linked");
        let c = plain::Cache::new(dir.clone(), cap);
        let tmp = c.temp_dir().unwrap().into_owned();
        let v0 = value_in(&tmp, "v0");
        c.set("a", &v0).unwrap();
        std::fs::hard_link(dir.join("a"), root.path().join("extra_link")).unwrap();
        let v1 = value_in(&tmp, "v1");
        let v2 = value_in(&tmp, "v2");
        mark("linked:put-existing");
        c.put("a", &v1).unwrap();
        mark("linked:set-existing");
        c.set("a", &v2).unwrap();
        mark("linked:end");
    }
    println!("{{\"found\":null,\"evaluations\":1,\"distinct_nontrivial\":1}}");
}
