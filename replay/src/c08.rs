//! C08: real `second_chance::Update::new` against an executable twin of the classical clock
//! queue, exhaustively over short sequences with few ranks (ties abound).
use kismet_cache::second_chance::{Entry, Update};
use std::collections::VecDeque;

#[derive(Clone, Debug, PartialEq, Eq)]
struct E {
    id: usize,
    rank: u8,
    acc: bool,
}

impl Entry for E {
    type Rank = u8;
    fn rank(&self) -> u8 {
        self.rank
    }
    fn accessed(&self) -> bool {
        self.acc
    }
}

/// Classical clock on a queue already ordered by rank. Returns (evicted ids, requeued ids in
/// final queue order).
fn clock(sorted: &[E], must: usize) -> (Vec<usize>, Vec<usize>) {
    let mut q: VecDeque<(E, bool, bool)> = sorted.iter().map(|e| (e.clone(), e.acc, false)).collect();
    let mut evicted = vec![];
    while evicted.len() < must {
        let (e, flag, _rq) = match q.pop_front() {
            Some(x) => x,
            None => break,
        };
        if flag {
            q.push_back((e, false, true));
        } else {
            evicted.push(e.id);
        }
    }
    let requeued = q.iter().filter(|x| x.2).map(|x| x.0.id).collect();
    (evicted, requeued)
}

/// All orderings of equally ranked entries are allowed: enumerate the stable sort and, when it
/// disagrees, every permutation within tie groups (small n only).
fn tie_orders(entries: &[E]) -> Vec<Vec<E>> {
    let mut base: Vec<E> = entries.to_vec();
    base.sort_by_key(|e| e.rank);
    let mut res = vec![];
    fn rec(groups: &[Vec<E>], acc: &mut Vec<E>, out: &mut Vec<Vec<E>>) {
        if groups.is_empty() {
            out.push(acc.clone());
            return;
        }
        let g = &groups[0];
        let mut idx: Vec<usize> = (0..g.len()).collect();
        permute(&mut idx, 0, &mut |p| {
            let n0 = acc.len();
            for &i in p {
                acc.push(g[i].clone());
            }
            rec(&groups[1..], acc, out);
            acc.truncate(n0);
        });
    }
    fn permute(v: &mut Vec<usize>, k: usize, f: &mut dyn FnMut(&[usize])) {
        if k == v.len() {
            f(v);
            return;
        }
        for i in k..v.len() {
            v.swap(k, i);
            permute(v, k + 1, f);
            v.swap(k, i);
        }
    }
    let mut groups: Vec<Vec<E>> = vec![];
    for e in base {
        match groups.last_mut() {
            Some(g) if g[0].rank == e.rank => g.push(e),
            _ => groups.push(vec![e]),
        }
    }
    rec(&groups, &mut vec![], &mut res);
    res
}

pub fn run(args: &[String]) {
    let max_len: usize = args.get(0).and_then(|s| s.parse().ok()).unwrap_or(5);
    let nranks: u8 = 3;
    let mut evals = 0u64;
    let mut nontrivial = 0u64;
    for n in 0..=max_len {
        let space = (nranks as u64 * 2).pow(n as u32);
        for code in 0..space {
            let mut c = code;
            let mut entries = vec![];
            for id in 0..n {
                let d = c % (nranks as u64 * 2);
                c /= nranks as u64 * 2;
                entries.push(E { id, rank: (d / 2) as u8, acc: d % 2 == 1 });
            }
            for cap in (0..=n + 1).chain(std::iter::once(usize::MAX)) {
                evals += 1;
                let r = std::panic::catch_unwind(|| {
                    let u = Update::new(entries.clone(), cap);
                    (
                        u.to_evict.iter().map(|e| e.id).collect::<Vec<_>>(),
                        u.to_move_back.iter().map(|e| e.id).collect::<Vec<_>>(),
                    )
                });
                let must = n.saturating_sub(cap);
                if must > 0 {
                    nontrivial += 1;
                }
                let ok = match &r {
                    Err(_) => false,
                    Ok((ev, mb)) => {
                        if n <= cap {
                            ev.is_empty() && mb.is_empty()
                        } else {
                            tie_orders(&entries).iter().any(|p| {
                                let (e2, m2) = clock(p, must);
                                &e2 == ev && &m2 == mb
                            })
                        }
                    }
                };
                if !ok {
                    let desc: Vec<String> =
                        entries.iter().map(|e| format!("{{\"rank\":{},\"accessed\":{}}}", e.rank, e.acc)).collect();
                    let got = match &r {
                        Err(_) => "\"panic\"".to_string(),
                        Ok((ev, mb)) => format!("{{\"to_evict\":{:?},\"to_move_back\":{:?}}}", ev, mb),
                    };
                    println!(
                        "{{\"found\":{{\"entries\":[{}],\"capacity\":{},\"real_result\":{},\"note\":\"no ordering of ties makes the classical clock produce this plan\"}},\"evaluations\":{},\"distinct_nontrivial\":{}}}",
                        desc.join(","),
                        if cap == usize::MAX { "\"usize::MAX\"".to_string() } else { cap.to_string() },
                        got,
                        evals,
                        nontrivial
                    );
                    return;
                }
            }
        }
    }
    println!("{{\"found\":null,\"evaluations\":{},\"distinct_nontrivial\":{}}}", evals, nontrivial);
}
