//! C07: real `raw_cache::prune` on real directories vs the classical clock on (mtime, atime>=mtime).
use filetime::FileTime;
use kismet_cache::raw_cache;
use std::collections::{BTreeMap, VecDeque};
use std::io::Write;

fn clock(sorted: &[(String, i64, bool)], must: usize) -> (Vec<String>, Vec<String>) {
    let mut q: VecDeque<(String, bool, bool)> = sorted.iter().map(|e| (e.0.clone(), e.2, false)).collect();
    let mut ev = vec![];
    while ev.len() < must {
        match q.pop_front() {
            None => break,
            Some((n, true, _)) => q.push_back((n, false, true)),
            Some((n, false, _)) => ev.push(n),
        }
    }
    (ev, q.iter().filter(|x| x.2).map(|x| x.0.clone()).collect())
}

pub fn run(args: &[String]) {
    let max_n: usize = args.get(0).and_then(|s| s.parse().ok()).unwrap_or(4);
    let base = 1_600_000_000i64;
    let mut evals = 0u64;
    let mut nontrivial = 0u64;
    for n in 0..=max_n {
        let per = 3 * 2; // mtime slot x read flag
        for code in 0..(per as u64).pow(n as u32) {
            let mut c = code;
            let mut files = vec![];
            for i in 0..n {
                let d = c % per as u64;
                c /= per as u64;
                files.push((format!("k{}", i), base + 100 * (d / 2) as i64, d % 2 == 1));
            }
            for cap in 0..=n + 1 {
                evals += 1;
                let root = tempfile::tempdir().unwrap();
                let dir = root.path().join("c");
                std::fs::create_dir_all(dir.join("subdir")).unwrap();
                for (name, mt, read) in &files {
                    let p = dir.join(name);
                    std::fs::File::create(&p).unwrap().write_all(b"x").unwrap();
                    let m = FileTime::from_unix_time(*mt, 0);
                    let a = FileTime::from_unix_time(if *read { *mt + 5 } else { *mt - 50 }, 0);
                    filetime::set_file_times(&p, a, m).unwrap();
                }
                let res = raw_cache::prune(dir.clone(), cap);
                let mut after: BTreeMap<String, (i64, bool)> = BTreeMap::new();
                for e in std::fs::read_dir(&dir).unwrap().flatten() {
                    let md = e.metadata().unwrap();
                    if md.is_dir() {
                        continue;
                    }
                    let m = FileTime::from_last_modification_time(&md);
                    let a = FileTime::from_last_access_time(&md);
                    after.insert(e.file_name().to_string_lossy().to_string(), (m.unix_seconds(), a >= m));
                }
                let must = n.saturating_sub(cap);
                if must > 0 {
                    nontrivial += 1;
                }
                // acceptable outcomes: any ordering of mtime ties
                let mut sorted = files.clone();
                sorted.sort_by_key(|f| f.1);
                let mut ok = false;
                let mut orders = vec![sorted.clone()];
                // also the reverse order inside tie groups (enough to cover 2-way ties; larger ties: all perms)
                let mut groups: Vec<Vec<(String, i64, bool)>> = vec![];
                for f in sorted {
                    match groups.last_mut() {
                        Some(g) if g[0].1 == f.1 => g.push(f),
                        _ => groups.push(vec![f]),
                    }
                }
                fn perms(g: &Vec<(String, i64, bool)>) -> Vec<Vec<(String, i64, bool)>> {
                    if g.len() <= 1 {
                        return vec![g.clone()];
                    }
                    let mut out = vec![];
                    for i in 0..g.len() {
                        let mut rest = g.clone();
                        let x = rest.remove(i);
                        for mut p in perms(&rest) {
                            p.insert(0, x.clone());
                            out.push(p);
                        }
                    }
                    out
                }
                let mut acc: Vec<Vec<(String, i64, bool)>> = vec![vec![]];
                for g in &groups {
                    let mut next = vec![];
                    for a in &acc {
                        for p in perms(g) {
                            let mut v = a.clone();
                            v.extend(p);
                            next.push(v);
                        }
                    }
                    acc = next;
                }
                orders.extend(acc);
                let subdir_ok = dir.join("subdir").is_dir();
                for o in &orders {
                    let (ev, mb) = clock(o, must);
                    let mut good = res.is_ok() && subdir_ok;
                    for (name, mt, read) in &files {
                        let gone = ev.contains(name);
                        match after.get(name) {
                            None => good &= gone,
                            Some((m2, read2)) => {
                                good &= !gone;
                                if mb.contains(name) {
                                    good &= *m2 > base + 10_000 && !*read2;
                                } else {
                                    good &= *m2 == *mt && *read2 == *read;
                                }
                            }
                        }
                    }
                    // reprieved entries keep their relative order at the back
                    let stamps: Vec<i64> = mb.iter().filter_map(|nm| after.get(nm).map(|x| x.0)).collect();
                    good &= stamps.windows(2).all(|w| w[0] <= w[1]);
                    if good {
                        ok = true;
                        break;
                    }
                }
                if !ok {
                    let desc: Vec<String> = files.iter().map(|f| format!("{{\"name\":\"{}\",\"mtime\":{},\"read\":{}}}", f.0, f.1 - base, f.2)).collect();
                    let aft: Vec<String> = after.iter().map(|(k, v)| format!("{{\"name\":\"{}\",\"mtime_moved\":{},\"read\":{}}}", k, v.0 > base + 10_000, v.1)).collect();
                    println!(
                        "{{\"found\":{{\"files\":[{}],\"capacity\":{},\"result_ok\":{},\"after\":[{}],\"note\":\"directory after prune is not explained by Second Chance under any ordering of mtime ties\"}},\"evaluations\":{},\"distinct_nontrivial\":{}}}",
                        desc.join(","), cap, res.is_ok(), aft.join(","), evals, nontrivial
                    );
                    return;
                }
            }
        }
    }
    println!("{{\"found\":null,\"evaluations\":{},\"distinct_nontrivial\":{}}}", evals, nontrivial);
}
