//! C17: what maintenance deletes.  Directory with key files, dot-prefixed application files,
//! subdirectories and `.kismet_temp` contents on both sides of the one-hour limit.
use filetime::FileTime;
use kismet_cache::{plain, raw_cache};
use std::io::Write;
use std::path::Path;

fn touch_file(p: &Path, age_s: i64) {
    std::fs::File::create(p).unwrap().write_all(b"x").unwrap();
    let now = FileTime::now().unix_seconds();
    let t = FileTime::from_unix_time(now - age_s, 0);
    filetime::set_file_times(p, t, t).unwrap();
}

pub fn run(_args: &[String]) {
    let mut evals = 0u64;
    for nkeys in 0..5usize {
        for cap in 0..4usize {
            for via in ["prune", "set"] {
                evals += 1;
                let root = tempfile::tempdir().unwrap();
                let dir = root.path().join("cache");
                std::fs::create_dir_all(dir.join(".kismet_temp")).unwrap();
                std::fs::create_dir_all(dir.join("subdir")).unwrap();
                std::fs::create_dir_all(dir.join(".appdir")).unwrap();
                touch_file(&dir.join(".appstate"), 5000);
                touch_file(&dir.join(".appstate2"), 10);
                // an application file whose name is not UTF-8 (Unix file names are bytes)
                let raw_name = <std::ffi::OsStr as std::os::unix::ffi::OsStrExt>::from_bytes(&[0x2e, 0xff, 0x61]);
                touch_file(&dir.join(raw_name), 7000);
                let app_before = std::fs::metadata(dir.join(".appstate")).unwrap();
                for i in 0..nkeys {
                    touch_file(&dir.join(format!("key{}", i)), 100 + i as i64);
                }
                touch_file(&dir.join(".kismet_temp").join("old_tmp"), 3600 + 600);
                touch_file(&dir.join(".kismet_temp").join("young_tmp"), 3600 - 600);
                let res = if via == "prune" {
                    raw_cache::prune(dir.clone(), cap).map(|_| ())
                } else {
                    // capacity < 3 => period 1: every write maintains first
                    let c = plain::Cache::new(dir.clone(), cap.min(2));
                    let src = dir.join(".kismet_temp").join("src_value");
                    std::fs::File::create(&src).unwrap().write_all(b"v").unwrap();
                    c.set("newkey", &src)
                };
                let mut problem = None;
                for must in [".appstate", ".appstate2", "subdir", ".appdir", ".kismet_temp/young_tmp"] {
                    if !dir.join(must).exists() {
                        problem = Some(format!("{} was removed", must));
                        break;
                    }
                }
                if problem.is_none() && !dir.join(raw_name).exists() {
                    problem = Some("a dot-prefixed application file with a non-UTF-8 name was removed".to_string());
                }
                if problem.is_none() {
                    let app_after = std::fs::metadata(dir.join(".appstate")).unwrap();
                    if FileTime::from_last_modification_time(&app_after) != FileTime::from_last_modification_time(&app_before)
                        || FileTime::from_last_access_time(&app_after) != FileTime::from_last_access_time(&app_before)
                        || app_after.len() != app_before.len()
                    {
                        problem = Some("a dot-prefixed application file was altered (re-stamped)".to_string());
                    }
                }
                if via == "set" && problem.is_none() && dir.join(".kismet_temp/old_tmp").exists() {
                    problem = Some("stale temporary file survived a maintenance run".to_string());
                }
                if let (Some(what), _) = (problem, &res) {
                    println!(
                        "{{\"found\":{{\"key_files\":{},\"capacity\":{},\"via\":\"{}\",\"what\":\"{}\"}},\"evaluations\":{},\"distinct_nontrivial\":{}}}",
                        nkeys, cap, via, what, evals, evals
                    );
                    return;
                }
            }
        }
    }
    println!("{{\"found\":null,\"evaluations\":{},\"distinct_nontrivial\":{}}}", evals, evals);
}
