//! C02 (bounded stand-in, driven by tools/replay.py::c02_search): a process is killed (SIGKILL injected by strace on
//! entry to the k-th system call of ONE operation, i.e. at the boundary between two of its filesystem calls) and a
//! second process then inspects and uses the directories:
//!   kreplay c02 run    <root> <scenario>   sets the stage, brackets the operation with marker calls, runs it
//!   kreplay c02 verify <root> <scenario>   every key-named file is a complete read-only value, debris is confined
//!                                          to `.kismet_temp`, later operations succeed with normal semantics, young
//!                                          debris survives maintenance and old debris is removed by it.
use kismet_cache::{CacheBuilder, CacheHit, CacheHitAction, Key};
use std::io::{Read, Write};
use std::os::unix::fs::PermissionsExt;
use std::path::{Path, PathBuf};

const VALUE: &[u8] = b"the quick brown fox jumps over the lazy dog; the quick brown fox jumps over the lazy dog";

fn mark(what: &str) {
    let _ = std::fs::metadata(format!("/kv-marker/{}", what));
}

fn stage(dir: &Path, name: &str) -> PathBuf {
    std::fs::create_dir_all(dir).unwrap();
    let p = dir.join(name);
    std::fs::File::create(&p).unwrap().write_all(VALUE).unwrap();
    p
}

fn build(root: &Path, scenario: &str, capacity: usize) -> kismet_cache::Cache {
    let wdir = root.join("w");
    let rdir = root.join("r");
    std::fs::create_dir_all(&wdir).unwrap();
    std::fs::create_dir_all(&rdir).unwrap();
    let mut b = CacheBuilder::new();
    if scenario.starts_with("sharded") {
        b.sharded_writer(&wdir, 3, capacity.saturating_mul(3));
    } else {
        b.plain_writer(&wdir, capacity);
    }
    b.plain_reader(&rdir);
    b.build()
}

fn walk(dir: &Path, in_temp: bool, keys: &mut Vec<PathBuf>, temps: &mut Vec<PathBuf>, strays: &mut Vec<PathBuf>) {
    if let Ok(rd) = std::fs::read_dir(dir) {
        for e in rd.flatten() {
            let p = e.path();
            let name = e.file_name().to_string_lossy().into_owned();
            if p.is_dir() {
                walk(&p, in_temp || name == ".kismet_temp", keys, temps, strays);
            } else if in_temp {
                temps.push(p);
            } else if name.starts_with('.') {
                strays.push(p);
            } else {
                keys.push(p);
            }
        }
    }
}

pub fn run(args: &[String]) {
    let mode = args.first().map(|s| s.as_str()).unwrap_or("");
    let root = PathBuf::from(args.get(1).expect("root"));
    let scenario = args.get(2).map(|s| s.as_str()).unwrap_or("plain-put").to_string();
    let op = scenario.split('-').nth(1).unwrap_or("put").to_string();
    let key = Key::new("thekey", 0x1111_2222_3333_4444, 0x9999_8888_7777_6666);
    let wdir = root.join("w");
    let rdir = root.join("r");
    let stage_dir = root.join("staging");
    match mode {
        "run" => {
            // capacity: huge, or (scenario `*-maint`) so small that the write maintains an over-full directory
            let maint = scenario.ends_with("-maint");
            let cache = build(&root, &scenario, if maint { 2 } else { 30_000_000 });
            if matches!(op.as_str(), "promote") {
                std::fs::File::create(rdir.join("thekey")).unwrap().write_all(VALUE).unwrap();
            }
            if matches!(op.as_str(), "putexisting" | "setexisting" | "gethit" | "touchhit" | "ensurehit") {
                let v = stage(&stage_dir, "pre");
                cache.set(key, &v).unwrap();
            }
            if !scenario.ends_with("-fresh") {
                for (i, n) in ["warm0", "warm1", "warm2", "warm3"].iter().enumerate() {
                    let v = stage(&stage_dir, n);
                    cache.set(Key::new(n, i as u64, 7 * i as u64), &v).unwrap();
                }
            }
            if scenario.contains("staletemp") {
                // debris of a crashed writer: two temporary files older than the age limit, which this write's maintenance sweeps
                let tdir = wdir.join(".kismet_temp");
                std::fs::create_dir_all(&tdir).unwrap();
                for n in ["stale0", "stale1"] {
                    let p = tdir.join(n);
                    std::fs::File::create(&p).unwrap().write_all(VALUE).unwrap();
                    let t = filetime::FileTime::from_unix_time(filetime::FileTime::now().unix_seconds() - 3 * 3600, 0);
                    filetime::set_file_times(&p, t, t).unwrap();
                }
            }
            let src = stage(&stage_dir, "src");
            mark("begin");
            let r: std::io::Result<()> = match op.as_str() {
                "set" | "setexisting" => cache.set(key, &src),
                "put" | "putexisting" => cache.put(key, &src),
                "ensure" | "promote" | "ensurehit" => cache.ensure(key, |dst| dst.write_all(VALUE)).map(|_| ()),
                "prune" => kismet_cache::raw_cache::prune(wdir.clone(), 2).map(|_| ()),
                "gethit" => cache.get(key).map(|_| ()),
                "touchhit" => cache.touch(key).map(|_| ()),
                "replace" => cache
                    .get_or_update(key, |_h: CacheHit| CacheHitAction::Replace, |dst, _old| dst.write_all(VALUE))
                    .map(|_| ()),
                _ => panic!("unknown op"),
            };
            mark("end");
            println!("{{\"ran\":{}}}", r.is_ok());
        }
        "verify" => {
            let mut problems: Vec<String> = Vec::new();
            let rel = |p: &Path| p.strip_prefix(&root).unwrap().display().to_string();
            let (mut keys, mut temps, mut strays) = (Vec::new(), Vec::new(), Vec::new());
            walk(&wdir, false, &mut keys, &mut temps, &mut strays);
            for p in &keys {
                let bytes = std::fs::read(p).unwrap_or_default();
                if bytes != VALUE {
                    problems.push(format!("{} holds {} bytes: not a complete value", rel(p), bytes.len()));
                }
                let mode = std::fs::metadata(p).map(|m| m.permissions().mode()).unwrap_or(0);
                if mode & 0o222 != 0 {
                    problems.push(format!("{} is writable (mode {:o})", rel(p), mode & 0o777));
                }
            }
            for p in &strays {
                problems.push(format!("debris outside .kismet_temp: {}", rel(p)));
            }
            // later operations by another process succeed with normal semantics
            let cache = build(&root, &scenario, 30_000_000);
            match cache.get(key) {
                Ok(Some(mut f)) => {
                    let mut v = Vec::new();
                    let _ = f.read_to_end(&mut v);
                    if v != VALUE {
                        problems.push("a later get returns something that is not the whole value".into());
                    }
                }
                Ok(None) => {}
                Err(e) => problems.push(format!("a later get fails: {}", e)),
            }
            let v = stage(&stage_dir, "later1");
            if let Err(e) = cache.put(key, &v) {
                problems.push(format!("a later put fails: {}", e));
            }
            let v = stage(&stage_dir, "later2");
            if let Err(e) = cache.set(Key::new("other", 5, 6), &v) {
                problems.push(format!("a later set fails: {}", e));
            }
            match cache.ensure(Key::new("third", 8, 9), |dst| dst.write_all(VALUE)) {
                Ok(mut f) => {
                    let mut v = Vec::new();
                    let _ = f.read_to_end(&mut v);
                    if v != VALUE {
                        problems.push("a later ensure returns something that is not the whole value".into());
                    }
                }
                Err(e) => problems.push(format!("a later ensure fails: {}", e)),
            }
            match cache.get(key) {
                Ok(Some(_)) => {}
                other => problems.push(format!("the key is not readable after a later put: {:?}", other.map(|o| o.is_some()))),
            }
            // young debris is left alone, old debris is removed, by maintenance of that directory
            let (mut k2, mut debris, mut s2) = (Vec::new(), Vec::new(), Vec::new());
            walk(&wdir, false, &mut k2, &mut debris, &mut s2);
            if !debris.is_empty() {
                let small = build(&root, &scenario, 1);
                let force = |tag: &str| {
                    // capacity 1 (3 for the sharded writer: one per shard): every write maintains the directory it writes to
                    for i in 0..12u64 {
                        let v = stage(&stage_dir, &format!("{}{}", tag, i));
                        let _ = small.set(Key::new(&format!("{}{}", tag, i), i.wrapping_mul(0x9e37_79b9_7f4a_7c15), i.wrapping_mul(0x2545_f491_4f6c_dd1d)), &v);
                    }
                };
                force("m");
                for p in &debris {
                    if !p.exists() {
                        problems.push(format!("young debris {} was removed by maintenance", rel(p)));
                    }
                }
                let old = filetime::FileTime::from_unix_time(filetime::FileTime::now().unix_seconds() - 2 * 3600, 0);
                for p in &debris {
                    let _ = filetime::set_file_times(p, old, old);
                }
                force("n");
                for p in &debris {
                    if p.exists() && !scenario.starts_with("sharded") {
                        problems.push(format!("debris {} older than the age limit survived maintenance of its directory", rel(p)));
                    }
                }
            }
            let plist = problems.iter().map(|p| format!("\"{}\"", p.replace('"', "'"))).collect::<Vec<_>>().join(",");
            println!("{{\"debris\":{},\"problems\":[{}]}}", debris.len(), plist);
        }
        _ => panic!("usage: kreplay c02 run|verify <root> <scenario>"),
    }
}
