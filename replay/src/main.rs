//! Best-effort search for concrete failing inputs on the real crate (used only to attach a
//! counterexample to an obligation that Verus failed to discharge, and as bounded add-on
//! evidence in the thorough tier).  Each subcommand prints one JSON object on stdout:
//!   {"found": null | {...failing input...}, "evaluations": N, "distinct_nontrivial": M}
mod c02;
mod c07;
mod c08;
mod c10;
mod c11;
mod c12;
mod c13;
mod c16;
mod c17;
mod c18;
mod c20;

fn main() {
    let args: Vec<String> = std::env::args().collect();
    let sub = args.get(1).map(|s| s.as_str()).unwrap_or("");
    let rest: Vec<String> = args.iter().skip(2).cloned().collect();
    match sub {
        "c02" => c02::run(&rest),
        "c07" => c07::run(&rest),
        "c08" => c08::run(&rest),
        "c10" => c10::run(&rest),
        "c11" => c11::run(&rest),
        "c12" => c12::run(&rest),
        "c13" => c13::run(&rest),
        "c16" => c16::run(&rest),
        "c17" => c17::run(&rest),
        "c18" => c18::run(&rest),
        "c20" => c20::run(&rest),
        _ => {
            eprintln!("usage: kreplay <c08|...> [args]");
            std::process::exit(2);
        }
    }
}
