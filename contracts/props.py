"""Per-property configuration: which units carry the obligations, replayers, notes."""
import os
import sys

sys.path.insert(0, os.path.join(os.path.dirname(os.path.abspath(__file__)), '..', 'tools'))
import replay


def replay_c08(failure, tier):
    r = replay.kreplay('c08', [5 if tier == 'quick' else 6])
    return r.get('found')


def thorough_c08(tier):
    r = replay.kreplay('c08', [6], timeout=3000)
    out = {'bounded': ['native differential search: real Update::new vs executable clock twin, all sequences '
                       'of <= 6 entries over 3 ranks x flags, capacities 0..n+1 and usize::MAX: %d evaluations'
                       % r['evaluations']],
           'coverage': {'differential_evaluations': r['evaluations'],
                        'differential_nontrivial': r['distinct_nontrivial']}}
    if r.get('found'):
        out['violations'] = [{'property': 'C08', 'obligation': ['differential: plan differs from every clock run'],
                              'failing_input': r['found']}]
    return out


PROPS = {
    'C08': {
        'units': ['u1_planner'],
        'replayer': replay_c08,
        'thorough': thorough_c08,
        'assumptions': [
            'slice::sort_by_cached_key returns a permutation of its input ordered by the keys the closure returned (assume_specification)',
            'Vec::drain(a..b) removes and yields exactly that subrange in order; Vec::extend appends the yielded items in order (assume_specifications)',
            'vstd specifications of Vec::push/len/new, Iterator::collect into Vec and the consuming for-loop over Vec are trusted as shipped with Verus',
            'Entry::rank and Entry::accessed are deterministic functions of the entry (trait-level postcondition; an obligation for every implementor verified in this framework)',
            '`K: Ord` is only used through the uninterpreted total preorder ord_le; the clock is run under *some* ordering of ties, as the property allows',
        ],
        'not_covered': [],
        'level_text': 'Unbounded proof: Verus discharges, on the verbatim body of second_chance::Update::new extracted from /repo, the '
                      'postcondition that the plan equals the classical clock queue run on a rank-sorted permutation of the collected '
                      'input (all lengths, all ranks incl. ties, all flags, all capacities incl. 0 and usize::MAX), plus panic-freedom '
                      '(assert!, subtraction, drain range). Conservation (nothing invented/dropped/duplicated, |evict| = max(0,n-cap)) is a '
                      'proved lemma over that postcondition. Tests sample inputs; this covers every input.',
        'level_note': 'Trusted: Verus/Z3; assumed contracts of slice::sort_by_cached_key, Vec::drain, Vec::extend and vstd specs of '
                      'collect/push/for-over-Vec; Entry::rank/accessed deterministic (trait postcondition). The extraction is checked by '
                      'token-level erasure on every run. A failed obligation is replayed by exhaustive native search (<=5 entries quick, <=6 thorough).',
        'technique': 'Verus postcondition == recursive clock spec function, loop invariant over the real scan loop, lemmas by induction; erasure-checked extraction',
    },
}

NOT_CLAIMED = {}

