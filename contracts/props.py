"""Per-property configuration: which units carry the obligations, replayers, notes."""
import os
import sys

sys.path.insert(0, os.path.join(os.path.dirname(os.path.abspath(__file__)), '..', 'tools'))
import replay
import kani_twin
import importlib.util


def _unit_module(name):
    p = os.path.join(os.path.dirname(os.path.abspath(__file__)), 'units', name + '.py')
    spec = importlib.util.spec_from_file_location(name, p)
    m = importlib.util.module_from_spec(spec)
    spec.loader.exec_module(m)
    return m


def replay_c08(failure, tier):
    r = replay.kreplay('c08', [5 if tier == 'quick' else 6])
    return r.get('found')


def thorough_c08(tier):
    r = replay.kreplay('c08', [6], timeout=3000)
    out = {'bounded': ['native differential search: real Update::new vs executable clock twin, all sequences '
                       'of <= 6 entries over 3 ranks x flags, capacities 0..n+1 and usize::MAX: %d evaluations'
                       % r['evaluations']],
           'coverage': {'differential_evaluations': r['evaluations'],
                        'differential_nontrivial': r['distinct_nontrivial']}}
    if r.get('found'):
        out['violations'] = [{'property': 'C08', 'obligation': ['differential: plan differs from every clock run'],
                              'failing_input': r['found']}]
    return out


def hash_constants():
    return {k: '0x%x' % v for k, v in _unit_module('u3_hash').constants().items()}


def replay_c12(failure, tier):
    c = hash_constants()
    r = replay.kreplay('c12', [c['PM'], c['PA'], c['SM'], c['SA'], 150 if tier == 'quick' else 600])
    return r.get('found')


def extra_c12(tier):
    """U7: the crate's mixer constants equal the hashlib-derived ones (Kani on the unmodified crate)."""
    res = kani_twin.run_twins([('src/sharded.rs', 'sharded_twin.rs', ['mixer_constants'])], hash_constants(), timeout=600)
    r = res['mixer_constants']
    out = {'obligations': 0, 'cmds': [r['cmd']], 'backends': [], 'failures': [], 'undecided': [], 'functions': []}
    if r['status'] == 'undecided':
        out['undecided'].append('Kani twin mixer_constants: ' + str(r.get('detail'))[:500])
        return out
    out['obligations'] = r.get('checks') or 4
    out['solver_s'] = r.get('cbmc_s') or 0.0
    out['backends'].append('Kani 0.68 / CBMC 6.x: harness kv_twin::mixer_constants on the unmodified crate (compile-time constants: complete), %s checks' % r.get('checks'))
    out['functions'].append({'function': 'src/sharded.rs::const PRIMARY_MIXER, SECONDARY_MIXER (via multiplicative_hash::new_keyed, real body)',
                             'obligations': out['obligations'], 'solver_s': out['solver_s'], 'backend': 'kani'})
    if r['status'] == 'failed':
        out['failures'].append({'message': 'Kani: ' + '; '.join(r['failed_checks']), 'fn': 'src/sharded.rs::kv_twin::mixer_constants',
                                'labels': ['C12:mixer-constants-are-sha256-derived'], 'props': ['C12'], 'line': None,
                                'excerpt': '', 'rendered': '\n'.join(r['failed_checks']), 'probe': False, 'unit': 'u7_kani'})
    return out


def thorough_c12(tier):
    c = hash_constants()
    r = replay.kreplay('c12', [c['PM'], c['PA'], c['SM'], c['SA'], 2000], timeout=3000)
    out = {'bounded': ['native observation of the real sharded cache (directory names incl. the `.kismet_%%04x` format, put location, '
                       'get probing) vs an independent reimplementation: %d (hash, secondary, n) triples incl. boundary values' % r['evaluations']],
           'coverage': {'observed_placements': r['evaluations']}}
    if r.get('found'):
        out['violations'] = [{'property': 'C12', 'obligation': ['differential: observed placement differs'], 'failing_input': r['found']}]
    return out


def replay_c10(failure, tier):
    return replay.kreplay('c10', [10 if tier == 'quick' else 60]).get('found')


PROPS = {
    'C08': {
        'units': ['u1_planner'],
        'replayer': replay_c08,
        'thorough': thorough_c08,
        'assumptions': [
            'slice::sort_by_cached_key returns a permutation of its input ordered by the keys the closure returned (assume_specification)',
            'Vec::drain(a..b) removes and yields exactly that subrange in order; Vec::extend appends the yielded items in order (assume_specifications)',
            'vstd specifications of Vec::push/len/new, Iterator::collect into Vec and the consuming for-loop over Vec are trusted as shipped with Verus',
            'Entry::rank and Entry::accessed are deterministic functions of the entry (trait-level postcondition; an obligation for every implementor verified in this framework)',
            '`K: Ord` is only used through the uninterpreted total preorder ord_le; the clock is run under *some* ordering of ties, as the property allows',
        ],
        'not_covered': [],
        'level_text': 'Unbounded proof: Verus discharges, on the verbatim body of second_chance::Update::new extracted from /repo, the '
                      'postcondition that the plan equals the classical clock queue run on a rank-sorted permutation of the collected '
                      'input (all lengths, all ranks incl. ties, all flags, all capacities incl. 0 and usize::MAX), plus panic-freedom '
                      '(assert!, subtraction, drain range). Conservation (nothing invented/dropped/duplicated, |evict| = max(0,n-cap)) is a '
                      'proved lemma over that postcondition. Tests sample inputs; this covers every input.',
        'level_note': 'Trusted: Verus/Z3; assumed contracts of slice::sort_by_cached_key, Vec::drain, Vec::extend and vstd specs of '
                      'collect/push/for-over-Vec; Entry::rank/accessed deterministic (trait postcondition). The extraction is checked by '
                      'token-level erasure on every run. A failed obligation is replayed by exhaustive native search (<=5 entries quick, <=6 thorough).',
        'technique': 'Verus postcondition == recursive clock spec function, loop invariant over the real scan loop, lemmas by induction; erasure-checked extraction',
    },
}

PROPS['C12'] = {
    'units': ['u3_hash'],
    'extra': extra_c12,
    'replayer': replay_c12,
    'thorough': thorough_c12,
    'assumptions': [
        'vstd specifications of u64::wrapping_mul / wrapping_add and of `as` casts',
        'the Verus unit assumes the two mixer constants; the Kani harness on the real crate discharges that assumption on every run',
        'directory-name formatting (`format_id`, a format! call) is outside both verifiers: bounded native observation only (thorough tier), never counted as proved',
    ],
    'bounded': ['sharded::format_id (format!(".kismet_{:04x}")): not under contract; observed natively in the thorough tier only'],
    'not_covered': ['probe order and storage location at the filesystem level (get/touch/set/put of sharded::Cache) are part of unit U5'],
    'level_text': 'Unbounded proof of the arithmetic: Verus shows on the verbatim bodies of reduce/new/mix/map and '
                  'sharded::Cache::{other_shard_id, shard_ids} that the two shard ids equal the documented multiply-add-then-scale '
                  'function of (hash, secondary hash, n) with the SHA-256-derived constants, are < n and distinct, for every 64-bit '
                  'hash pair and every n >= 2. Kani/CBMC proves on the unmodified crate that the compile-time mixer constants equal '
                  'the values the check derives with hashlib.',
    'level_note': 'Trusted: Verus/Z3, Kani/CBMC, vstd wrapping-arithmetic specs, hashlib. format_id is only observed (bounded, thorough tier). '
                  'Filesystem-level probe order is carried by the sharded unit (U5) when built.',
    'technique': 'Verus postconditions == spec functions (nonlinear + bit-vector lemmas) on extracted code; Kani harness for compile-time constants',
}

PROPS['C10'] = {
    'units': ['u2_trigger'],
    'replayer': replay_c10,
    'assumptions': [
        'ThreadRng::next_u64 may return any u64 (external_body stub without postcondition)',
        'the thread-local RefCell<u64> is modelled by the ghost field w.counter (T5); one thread, as the property states',
        'regenerate is verified for partial correctness only (its loop terminates with probability 1)',
    ],
    'not_covered': ['that CacheDir::{set,put} run the trigger and the whole maintenance before their own insertion, and that plain::Cache::new '
                    'uses capacity/3, are obligations of the filesystem unit U4 (listed there when built)'],
    'level_text': 'Unbounded proof: Verus shows on the verbatim bodies of trigger::{regenerate, observe, PeriodicTrigger::{new,event,weighted_event}} '
                  'that scale == ceil(u64::MAX/max(period,1)) and that each observation is the countdown transition observe_step for every '
                  'counter value and every random draw; lemma_fire_within_period then proves that no run of `period` consecutive events is '
                  'free of a firing, and lemma_growth_bound the k + period population bound.',
    'level_note': 'Trusted: Verus/Z3; the closure passed to COUNTER.with is lifted to a nested fn (T4) and the RefCell is a ghost field (T5), both checked by erasure; '
                  'random source unconstrained. Replay is best effort (draws cannot be forced from outside the crate).',
    'technique': 'Verus postconditions == transition spec; inductive lemma over runs of non-firing events; nonlinear arithmetic lemmas',
}

NOT_CLAIMED = {}

