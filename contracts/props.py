"""Per-property configuration: which units carry the obligations, replayers, notes."""
import os
import sys

sys.path.insert(0, os.path.join(os.path.dirname(os.path.abspath(__file__)), '..', 'tools'))
import replay
import kani_twin
import importlib.util


def _unit_module(name):
    p = os.path.join(os.path.dirname(os.path.abspath(__file__)), 'units', name + '.py')
    spec = importlib.util.spec_from_file_location(name, p)
    m = importlib.util.module_from_spec(spec)
    spec.loader.exec_module(m)
    return m


def replay_c08(failure, tier):
    r = replay.kreplay('c08', [5 if tier == 'quick' else 6])
    return r.get('found')


def thorough_c08(tier):
    r = replay.kreplay('c08', [6], timeout=3000)
    out = {'bounded': ['native differential search: real Update::new vs executable clock twin, all sequences '
                       'of <= 6 entries over 3 ranks x flags, capacities 0..n+1 and usize::MAX: %d evaluations'
                       % r['evaluations']],
           'coverage': {'differential_evaluations': r['evaluations'],
                        'differential_nontrivial': r['distinct_nontrivial']}}
    if r.get('found'):
        out['violations'] = [{'property': 'C08', 'obligation': ['differential: plan differs from every clock run'],
                              'failing_input': r['found']}]
    return out


def hash_constants():
    return {k: '0x%x' % v for k, v in _unit_module('u3_hash').constants().items()}


def replay_c12(failure, tier):
    c = hash_constants()
    r = replay.kreplay('c12', [c['PM'], c['PA'], c['SM'], c['SA'], 150 if tier == 'quick' else 600])
    return r.get('found')


def extra_c12(tier):
    """U7: the crate's mixer constants equal the hashlib-derived ones (Kani on the unmodified crate)."""
    res = kani_twin.run_twins([('src/sharded.rs', 'sharded_twin.rs', ['mixer_constants'])], hash_constants(), timeout=600)
    r = res['mixer_constants']
    out = {'obligations': 0, 'cmds': [r['cmd']], 'backends': [], 'failures': [], 'undecided': [], 'functions': []}
    if r['status'] == 'undecided':
        out['undecided'].append('Kani twin mixer_constants: ' + str(r.get('detail'))[:500])
        return out
    out['obligations'] = r.get('checks') or 4
    out['solver_s'] = r.get('cbmc_s') or 0.0
    out['backends'].append('Kani 0.68 / CBMC 6.x: harness kv_twin::mixer_constants on the unmodified crate (compile-time constants: complete), %s checks' % r.get('checks'))
    out['functions'].append({'function': 'src/sharded.rs::const PRIMARY_MIXER, SECONDARY_MIXER (via multiplicative_hash::new_keyed, real body)',
                             'obligations': out['obligations'], 'solver_s': out['solver_s'], 'backend': 'kani'})
    if r['status'] == 'failed':
        out['failures'].append({'message': 'Kani: ' + '; '.join(r['failed_checks']), 'fn': 'src/sharded.rs::kv_twin::mixer_constants',
                                'labels': ['C12:mixer-constants-are-sha256-derived'], 'props': ['C12'], 'line': None,
                                'excerpt': '', 'rendered': '\n'.join(r['failed_checks']), 'probe': False, 'unit': 'u7_kani'})
    return out


def thorough_c12(tier):
    c = hash_constants()
    r = replay.kreplay('c12', [c['PM'], c['PA'], c['SM'], c['SA'], 2000], timeout=3000)
    out = {'bounded': ['native observation of the real sharded cache (directory names incl. the `.kismet_%%04x` format, put location, '
                       'get probing) vs an independent reimplementation: %d (hash, secondary, n) triples incl. boundary values' % r['evaluations']],
           'coverage': {'observed_placements': r['evaluations']}}
    if r.get('found'):
        out['violations'] = [{'property': 'C12', 'obligation': ['differential: observed placement differs'], 'failing_input': r['found']}]
    return out


def replay_c10(failure, tier):
    return replay.kreplay('c10', [10 if tier == 'quick' else 60]).get('found')


PROPS = {
    'C08': {
        'units': ['u1_planner'],
        'replayer': replay_c08,
        'thorough': thorough_c08,
        'assumptions': [
            'slice::sort_by_cached_key returns a permutation of its input ordered by the keys the closure returned (assume_specification)',
            'Vec::drain(a..b) removes and yields exactly that subrange in order; Vec::extend appends the yielded items in order (assume_specifications)',
            'vstd specifications of Vec::push/len/new, Iterator::collect into Vec and the consuming for-loop over Vec are trusted as shipped with Verus',
            'Entry::rank and Entry::accessed are deterministic functions of the entry (trait-level postcondition; an obligation for every implementor verified in this framework)',
            '`K: Ord` is only used through the uninterpreted total preorder ord_le; the clock is run under *some* ordering of ties, as the property allows',
        ],
        'not_covered': [],
        'level_text': 'Unbounded proof: Verus discharges, on the verbatim body of second_chance::Update::new extracted from /repo, the '
                      'postcondition that the plan equals the classical clock queue run on a rank-sorted permutation of the collected '
                      'input (all lengths, all ranks incl. ties, all flags, all capacities incl. 0 and usize::MAX), plus panic-freedom '
                      '(assert!, subtraction, drain range). Conservation (nothing invented/dropped/duplicated, |evict| = max(0,n-cap)) is a '
                      'proved lemma over that postcondition. Tests sample inputs; this covers every input.',
        'level_note': 'Trusted: Verus/Z3; assumed contracts of slice::sort_by_cached_key, Vec::drain, Vec::extend and vstd specs of '
                      'collect/push/for-over-Vec; Entry::rank/accessed deterministic (trait postcondition). The extraction is checked by '
                      'token-level erasure on every run. A failed obligation is replayed by exhaustive native search (<=5 entries quick, <=6 thorough).',
        'technique': 'Verus postcondition == recursive clock spec function, loop invariant over the real scan loop, lemmas by induction; erasure-checked extraction',
    },
}

PROPS['C12'] = {
    'units': ['u3_hash'],
    'extra': extra_c12,
    'replayer': replay_c12,
    'thorough': thorough_c12,
    'assumptions': [
        'vstd specifications of u64::wrapping_mul / wrapping_add and of `as` casts',
        'the Verus unit assumes the two mixer constants; the Kani harness on the real crate discharges that assumption on every run',
        'directory-name formatting (`format_id`, a format! call) is outside both verifiers: bounded native observation only (thorough tier), never counted as proved',
    ],
    'bounded': ['sharded::format_id (format!(".kismet_{:04x}")): not under contract; observed natively in the thorough tier only'],
    'not_covered': ['probe order and storage location at the filesystem level (get/touch/set/put of sharded::Cache) are part of unit U5'],
    'level_text': 'Unbounded proof of the arithmetic: Verus shows on the verbatim bodies of reduce/new/mix/map and '
                  'sharded::Cache::{other_shard_id, shard_ids} that the two shard ids equal the documented multiply-add-then-scale '
                  'function of (hash, secondary hash, n) with the SHA-256-derived constants, are < n and distinct, for every 64-bit '
                  'hash pair and every n >= 2. Kani/CBMC proves on the unmodified crate that the compile-time mixer constants equal '
                  'the values the check derives with hashlib.',
    'level_note': 'Trusted: Verus/Z3, Kani/CBMC, vstd wrapping-arithmetic specs, hashlib. format_id is only observed (bounded, thorough tier). '
                  'Filesystem-level probe order is carried by the sharded unit (U5) when built.',
    'technique': 'Verus postconditions == spec functions (nonlinear + bit-vector lemmas) on extracted code; Kani harness for compile-time constants',
}

PROPS['C10'] = {
    'units': ['u2_trigger'],
    'replayer': replay_c10,
    'assumptions': [
        'ThreadRng::next_u64 may return any u64 (external_body stub without postcondition)',
        'the thread-local RefCell<u64> is modelled by the ghost field w.counter (T5); one thread, as the property states',
        'regenerate is verified for partial correctness only (its loop terminates with probability 1)',
    ],
    'not_covered': ['that CacheDir::{set,put} run the trigger and the whole maintenance before their own insertion, and that plain::Cache::new '
                    'uses capacity/3, are obligations of the filesystem unit U4 (listed there when built)'],
    'level_text': 'Unbounded proof: Verus shows on the verbatim bodies of trigger::{regenerate, observe, PeriodicTrigger::{new,event,weighted_event}} '
                  'that scale == ceil(u64::MAX/max(period,1)) and that each observation is the countdown transition observe_step for every '
                  'counter value and every random draw; lemma_fire_within_period then proves that no run of `period` consecutive events is '
                  'free of a firing, and lemma_growth_bound the k + period population bound.',
    'level_note': 'Trusted: Verus/Z3; the closure passed to COUNTER.with is lifted to a nested fn (T4) and the RefCell is a ghost field (T5), both checked by erasure; '
                  'random source unconstrained. Replay is best effort (draws cannot be forced from outside the crate).',
    'technique': 'Verus postconditions == transition spec; inductive lemma over runs of non-firing events; nonlinear arithmetic lemmas',
}


NATIVE_WHAT = {
    'c07': 'real raw_cache::prune on real directories (<= 3 files x 3 mtimes x read marks x capacities; <= 4 in the thorough tier) against an executable Second Chance twin',
    'c08': 'real second_chance::Update::new against an executable clock twin, all sequences of <= 5 entries over 3 ranks x flags, capacities 0..n+1 and usize::MAX',
    'c10': 'real plain cache: population bound k + max(1, k/3) over write sequences for small capacities',
    'c12': 'real sharded cache: directory names, put location and probe order against an independent reimplementation of the documented hash functions',
    'c13': 'real Cache::get_or_update over writer {none, plain, sharded} x key location x judge action x populate outcome x checker {none, byte equality, a custom checker that rejects with an error of kind NotFound} (360 configurations), and get / touch '
           'through stacks of three read-only levels x writer {none, empty, holding} x checker x equal/different copies (72 configurations)',
    'c16': 'a name grammar (empty, reserved first bytes, embedded /, .., long, non-ASCII) x {set, put, get, touch} x {plain, sharded} inside a sentinel tree',
    'c17': 'real prune / set on directories mixing key files, dot-prefixed application files (one with a non-UTF-8 name), subdirectories and temporary files on both sides of the age limit',
}


replay_c08.what = NATIVE_WHAT['c08']
replay_c12.what = NATIVE_WHAT['c12']
replay_c10.what = NATIVE_WHAT['c10']


def _native(sub, quick_args, thorough_args):
    def rp(failure, tier):
        return replay.kreplay(sub, quick_args if tier == 'quick' else thorough_args).get('found')
    rp.what = NATIVE_WHAT.get(sub, sub)
    return rp


def _native_many(subs):
    """Several native searches in turn; the first failing input wins."""
    def rp(failure, tier):
        for sub, qa, ta in subs:
            found = replay.kreplay(sub, qa if tier == 'quick' else ta).get('found')
            if found:
                found['search'] = sub
                return found
        return None
    rp.what = '; '.join(NATIVE_WHAT.get(sub, sub) for sub, _, _ in subs)
    return rp


def _native_c11(pid):
    def rp(failure, tier):
        return replay.kreplay('c11', [40 if tier == 'quick' else 400, pid]).get('found')
    rp.what = ('pseudo-random sequential histories (40 x 3 front-ends x 30 operations; 400 in the thorough tier) of get / touch / set / put over three keys through a plain, a '
               'sharded and a stacked cache, two independent handles on the same directories, nothing evicted, against a map model: lookups, consumed sources, one copy per key '
               '(C11); read marks and queue positions after every operation (C09); the read-only root unchanged except access times (C15)')
    return rp


def _thorough_c11(pid):
    def th(tier):
        r = replay.kreplay('c11', [400, pid], timeout=3000)
        out = {'bounded': ['model-differential histories on the real crate: %d operations' % r['evaluations']], 'coverage': {'native_evaluations': r['evaluations']}}
        if r.get('found'):
            out['violations'] = [{'property': pid, 'obligation': ['bounded: the real crate disagrees with the map model'], 'failing_input': r['found']}]
        return out
    return th


def replay_c20(failure, tier):
    """Bounded stand-in for what the contracts cannot see (descriptors are closed by Drop) and for undecided runs:
    the real crate under strace, see replay/src/c20.rs and tools/replay.py::c20_search."""
    return replay.c20_search(tier)


replay_c20.what = ('system-call trace (strace) of get/touch/set/put/ensure through a plain, a sharded and a stacked cache (plain writer, three plain readers, checker) over '
                   'directories holding 3 and 1500 entries (0/10/100/2000 in the thorough tier), maintenance not firing: identical call counts, no lock or sleep call, at most '
                   '2 (3 with a checker) descriptors at once, none left open, <= 2 open attempts per directory for a lookup, put/set onto an entry with an extra hard link completes, '
                   'set / put of a source path that does not exist return (an error) within five seconds with the same call counts whatever the directory size')


def replay_c03(failure, tier):
    """C03: the fault-injection search (a failed flush is never followed by publication) and the system-call trace, which
    compares a cache from a reused builder with one from a fresh builder (the flush before publication must be there)."""
    return replay.c18_search(tier) or replay.c20_search(tier)


def replay_c18(failure, tier):
    """Bounded stand-in for C18 / C03 / C05: every system call of one operation fails in turn (strace fault injection);
    see replay/src/c18.rs and tools/replay.py::c18_search."""
    return replay.c18_search(tier)


replay_c03.what = 'see replay_c18.what; plus the system-call trace of replay_c20, which compares the calls of set / ensure / put through a cache from a builder reused after take() with those of a cache from a fresh builder'
replay_c18.what = ('fault injection (strace -e inject, EIO) into every system call, one at a time, of set / put / ensure (miss, promotion) / Replace / checked get through a stacked '
                   'cache (134 single-fault runs; 301 over 17 scenarios in the thorough tier): no panic but the documented one, Ok implies the effect, Err is gone on re-issue, '
                   'visible files are complete and read-only, no temporary file is left, a failed flush is never followed by publication')


def thorough_c18(pid):
    def th(tier):
        found = replay.c18_search('thorough')
        out = {'bounded': ['fault injection (strace -e inject, EIO) into every system call, one at a time, of set / put / put onto an existing key / ensure (miss, hit, promotion) / '
                           'get_or_update with Replace / get / touch through a stacked cache with a plain or a sharded write side (%s single-fault runs): no panic except the documented '
                           'failed flush of a value handed over by path, Ok implies the effect, an Err is gone on re-issue, whatever is visible under a key name is a complete read-only '
                           'value, no temporary file of the library is left, a failed flush is never followed by publication' % getattr(replay.c18_search, 'runs', '?')],
               'coverage': {'native_evaluations': getattr(replay.c18_search, 'runs', 0)}}
        if found:
            out['violations'] = [{'property': pid, 'obligation': ['bounded: fault injection on the real crate'], 'failing_input': found}]
        return out
    return th


def replay_c02(failure, tier):
    """Bounded stand-in for C02: kill at every boundary between two filesystem calls of one operation, then inspect and
    use the directories from a second process; see replay/src/c02.rs and tools/replay.py::c02_search."""
    return replay.c02_search(tier)


replay_c02.what = ('crash injection (strace -e inject=…:signal=SIGKILL) on entry to every system call of set / put / ensure (miss, promotion) with and without maintenance, plain and '
                   'sharded write side, missing directories (about 100 crash points; 279 over 16 scenarios in the thorough tier); a second process then checks that every key-named '
                   'file is a complete read-only value, that debris is confined to .kismet_temp, that get / put / set / ensure succeed, that young debris survives maintenance '
                   'and debris older than the age limit is removed by it')


def thorough_c02(tier):
    found = replay.c02_search('thorough')
    out = {'bounded': [replay_c02.what + ' (%s crash points in this run)' % getattr(replay.c02_search, 'runs', '?')],
           'coverage': {'native_evaluations': getattr(replay.c02_search, 'runs', 0)}}
    if found:
        out['violations'] = [{'property': 'C02', 'obligation': ['bounded: crash injection on the real crate'], 'failing_input': found}]
    return out


def replay_c05(failure, tier):
    """Bounded stand-in for C05: an adversary deleting published cache files, simulated by ENOENT injection on the calls
    that name the published entry, and on the stat of a listed entry during maintenance; see tools/replay.py."""
    return replay.c05_search(tier) or replay.c05_maint_search(tier)


def replay_c06(failure, tier):
    """C06: the system-call trace (no lock, no sleep, bounded calls) and, because an operation must *finish successfully*
    wherever the others stopped, the vanished-entry search of C05 for maintenance."""
    return replay.c20_search(tier) or replay.c05_maint_search(tier)


replay_c06.what = 'see replay_c20.what; plus: a file that maintenance has listed vanishes before it is examined (ENOENT injected into the stat of each directory entry in turn): the write must still succeed'
replay_c05.what = ('an adversary that deletes the PUBLISHED entry of the key at every point of set / put / get / touch / ensure / Replace (strace -P <entry> -e inject=…:error=ENOENT, '
                   'from the i-th call that names the entry on; rename and link onto the name still work): the operation must still succeed (a lookup reports a miss, a touch '
                   'absence, a write completes); and a file that maintenance has listed, in the cache directory or among stale files of its temporary subdirectory, vanishes before it is examined (ENOENT into the stat of each listed item in turn)')


def thorough_c05(tier):
    found = replay.c05_search('thorough')
    out = {'bounded': [replay_c05.what + ' (%s adversary positions in this run)' % getattr(replay.c05_search, 'runs', '?')],
           'coverage': {'native_evaluations': getattr(replay.c05_search, 'runs', 0)}}
    if found:
        out['violations'] = [{'property': 'C05', 'obligation': ['bounded: simulated concurrent deletion on the real crate'], 'failing_input': found}]
    return out


def thorough_c20(pid):
    def th(tier):
        found = replay.c20_search('thorough')
        out = {'bounded': ['system-call trace (strace) of get/touch/set/put/ensure through a plain, a sharded and a stacked cache (plain writer, three plain readers, '
                           'checker) over directories pre-populated with 0, 10, 100 and 2000 entries, maintenance not firing: identical call counts across sizes, '
                           'no flock/fcntl-lock/nanosleep, at most 2 (3 with a checker) descriptors open at once, none left open, at most two open attempts per '
                           'directory for a lookup; a put/set onto an entry with an extra hard link completes'],
               'coverage': {'native_evaluations': 4}}
        if found:
            out['violations'] = [{'property': pid, 'obligation': ['bounded: system-call trace of the real crate'], 'failing_input': found}]
        return out
    return th


def _thorough_native(pid, sub, args, what):
    def th(tier):
        r = replay.kreplay(sub, args, timeout=3000)
        out = {'bounded': ['%s: %d evaluations' % (what, r['evaluations'])], 'coverage': {'native_evaluations': r['evaluations']}}
        if r.get('found'):
            out['violations'] = [{'property': pid, 'obligation': ['native observation on the real crate'], 'failing_input': r['found']}]
        return out
    return th


FS_ASSUMPTIONS = [
    'POSIX effects of rename/link/unlink/chmod/utimensat/futimens/open/fstat/lstat/opendir/readdir/mkdir -p as written in contracts/prelude/vfs.rs '
    '(external_body stand-ins for std::fs, filetime and std::time; each call is atomic; a failed call leaves the filesystem unchanged)',
    'every contract is stated for the participant running alone between two of its own filesystem calls (World.solo): interference by other '
    'participants is NOT modelled in the stubs; what carries over to concurrent runs are the protocol preconditions on private files (see DESIGN section 5)',
    'any filesystem call may fail: an error is either explained by the state (ENOENT/ESTALE on an absent path, EEXIST on link) or counted as a hard fault',
    'environment well-formedness (World.env_ok): timestamp granularity between 1 ns and 2 s, monotone clock, no entry dated in the future, '
    'stored mtimes representable at the granularity, no path is both a file and a directory, no directory is named like a key, '
    'configured cache directories do not nest inside one another\'s key namespace',
    'that each stand-in re-establishes the invariant is NOT assumed: unit u0_stubs proves, for every stand-in that takes the ghost World, the lemma '
    '"protocol precondition + stated effect ==> World.inv()" generated mechanically from the stand-in\'s own contract text (tools/stubjust.py); '
    'what remains assumed is the stated effect itself',
    'PathBuf::push(name) appends exactly one component only when `name` is a single normal component; otherwise nothing is known about the result',
    'a directory listing returns each existing child at most once, only existing children, and all of them when no item fails; fewer than 2^64 items',
    'the thread-local trigger countdown is the ghost field World.counter; the random source is unconstrained',
    'Verus is run with --no-trait-conflicts (std::path::Path trips the trait-conflict checker)',
]

U4_NOTE = ('Trusted: Verus/Z3; the stated effect of each POSIX/std/filetime/tempfile stand-in in contracts/prelude (listed one by one in evidence.trusted_base; '
           'that each stand-in preserves the invariant is proved from its protocol precondition by the generated lemmas of unit u0_stubs, not assumed); '
           'sequential (solo) filesystem model; callbacks (checker, judge, populate) as contracted; extraction transformations T1-T15 checked by token-level erasure on every run. ')


def _u4(pid, text, replayer=None, thorough=None, not_covered=(), units=('u0_stubs', 'u6_stack'), extra_assume=()):
    PROPS[pid] = {
        'units': list(units),
        'replayer': replayer,
        'thorough': thorough,
        'assumptions': FS_ASSUMPTIONS + list(extra_assume),
        'not_covered': [x for x in not_covered if x],
        'level_text': text + SHARDED_TEXT.get(pid, ''),
        'level_note': U4_NOTE + ('Not covered: ' + '; '.join([x for x in not_covered if x]) if [x for x in not_covered if x] else ''),
        'technique': 'Verus contracts (ghost filesystem World threaded through functions extracted verbatim from /repo; protocol guarantees as '
                     'preconditions of POSIX stubs; frames and exact effects as postconditions; loop invariants; lemmas)',
    }


SHARDED_TEXT = {
    'C11': " Sharded front-end: get returns the copy in the primary candidate, else the one in the secondary, None iff both are absent; set/put create a link only under one of the two "
           "candidate entry paths of the key and, when no call failed, never leave a copy in both candidates unless both already held one (for arbitrary in-memory load estimates); success consumes the source.",
    'C16': " Sharded front-end: an invalid name fails with InvalidInput with the filesystem, the trigger countdown and the publish counter unchanged (the only call made is a stat); "
           "everything that changes is inside the shard directories of this cache (sharded_frame).",
    'C17': " Sharded front-end: maintenance of the written shard and of the random other shard is confined to evictable entries and stale temporary files of shard directories of this cache.",
    'C15': " Sharded lookups change nothing but the access time of an entry stored under one of the two candidate paths of the key.",
    'C05': " Sharded lookups report absence from both candidates as a miss/false; every Err implies an invalid name or a counted hard fault.",
    'C18': " Sharded get/touch/set/put propagate every non-absence error (an Err of the primary probe is never turned into the answer of the secondary probe).",
    'C06': " Sharded: get <= 12 calls / 2 opens, touch <= 4, set <= 2*(20 + 3L), put <= 2*(22 + 3L) calls for L directory items read by maintenance (same deliberate slack).",
    'C20': " Sharded: at most two open attempts per lookup; write step counts are a constant plus three per directory item read by maintenance.",
    'C09': " Sharded get/touch mark the copy they find (primary first) without touching mtime.",
    'C01': " Sharded get returns a read-only handle on the inode bound under one of the two candidate paths of exactly that key.",
    'C02': " Sharded: shard directories and their .kismet_temp are the only directories ever created (sharded_frame / sharded_temp_frame).",
}
STACK_NC = None   # stack.rs / readonly.rs are under contract (unit u6_stack)
SHARD_NC = None
CONC_NC = ('interleavings with other participants are not quantified over: the contracts are sequential; only the per-step protocol guarantees '
           '(preconditions on private files) are schedule-independent')

_u4('C07', 'Unbounded proof on the verbatim bodies of raw_cache::{collect_cached_files, apply_update, prune} and second_chance::Update::new: a completed, '
    'fault-free prune applies exactly the Second Chance plan (clock spec over mtime as rank and atime>=mtime as read mark) computed over all regular, '
    'non-dot files of the directory: every victim is unlinked, every reprieved file still present is re-stamped at the back with its read mark cleared, '
    'nothing else changes (frame holds on every exit, errors included); within capacity the plan is empty; directories are never listed as records.',
    replayer=_native('c07', [3], [4]), thorough=_thorough_native('C07', 'c07', [4], 'real prune on real directories vs executable clock twin, <=4 files x 3 mtimes x flags x capacities'),
    not_covered=['relative order among several files reprieved in the same run is not claimed (only that each lands at the back)', SHARD_NC])
_u4('C17', 'Unbounded proof: on every exit of prune / cleanup_temporary_directory / CacheDir::{maintain, set, put} whatever disappeared is either a regular file '
    'directly inside the cache directory whose name does not start with a dot (an eviction victim of the plan), or a file directly inside .kismet_temp whose '
    'mtime is strictly more than the age limit (proved to be 3600 s from the crate constant) before the run; directories are never removed; inodes of other '
    'files are untouched. unlink is only ever called on private files, cache-namespace files or .kismet_temp children (stub precondition).',
    replayer=_native('c17', [], []), thorough=_thorough_native('C17', 'c17', [], 'real prune / set on populated directories with dot files, subdirectories and temp files on both sides of the limit'),
    not_covered=[SHARD_NC])
_u4('C16', 'Unbounded proof: validate_file_name accepts exactly the names whose first byte is not one of . / \\ and that contain no /, with InvalidInput otherwise; '
    'CacheDir::{get,touch,set,put} and the plain::Cache wrappers return that error with the World completely unchanged; for accepted names every effect is confined '
    'to child(base, name) (write_frame / lookup frame), and rename/link/unlink/utimens/mkdir stubs require their target to be a cache-namespace path, a .kismet_temp '
    'child, a private file or a cache directory.',
    replayer=_native_many([('c16', [], []), ('c17', [], [])]), thorough=_thorough_native('C16', 'c16', [], 'name grammar x {set,put,get,touch} x {plain,sharded} in a sentinel tree'),
    not_covered=[SHARD_NC, STACK_NC])
_u4('C09', 'Unbounded proof for every timestamp granularity in [1 ns, 2 s] and every kernel atime behaviour (open may or may not advance atime): after a successful '
    'CacheDir::get hit, touch (true) or put onto an existing key the entry satisfies atime >= mtime with mtime and content unchanged; after set or an inserting put '
    'the entry carries mtime = trunc(now) (>= every other stored mtime) and atime < mtime; reads never pass Some(mtime) to futimens (stub precondition).',
    replayer=_native_c11('C09'), thorough=_thorough_c11('C09'),
    not_covered=[SHARD_NC, STACK_NC])
_u4('C02', 'Unbounded proof of the crash invariant at every call boundary: every POSIX stand-in requires World.valid and is proved (u0_stubs) to re-establish it from its protocol precondition (whatever is visible under a key name '
    'is read-only and holds bytes supplied for that key), rename/link require the publish guarantee (private, read-only, stamped, synced if required, supplied for that key), '
    'and every function under contract ensures valid on every exit including errors; only cache directories and .kismet_temp are ever created; stale temp files are the only '
    'temp files ever removed; a maintenance run in which no call fails leaves no file in .kismet_temp older than the age limit (no_stale_temp: loop invariant over the complete '
    'directory listing, readdir completeness assumed).',
    replayer=replay_c02, thorough=thorough_c02,
    not_covered=['removal of our own temporary files on error paths is Drop of NamedTempFile / TempPath, invisible to contracts',
                 'completeness of temp-file cleanup is proved for cleanup_temporary_directory, CacheDir::{cleanup_temp_directory, definitely_cleanup, maintain} (plain directories and single shards); '
                 'the sharded front-end only cleans the shard it maintains'])
_u4('C18', 'Unbounded proof with failure enabled at every POSIX stub (any call may fail, any number of them): every operation ensures valid on every exit, Ok implies its effect '
    '(success-means-bound, exact effects when no fault occurred), errors are explained (invalid name, absent source, or a counted hard fault) and panic-freedom '
    '(assert!/expect/unwrap/arithmetics are proof obligations).',
    replayer=replay_c18, thorough=thorough_c18('C18'),
    not_covered=['that temporary files are not leaked is not provable by contract (Drop of NamedTempFile/TempPath): it is only observed, bounded, by the fault-injection runs of replay/src/c18.rs', SHARD_NC, STACK_NC])
_u4('C05', 'Proof (sequential model) that absence is never an error: is_absent_file_error is exactly ENOENT-kind or ESTALE; get reports Ok(None), touch Ok(false), '
    'ensure_file_removed / apply_update / collect_cached_files / cleanup skip what has vanished, prune on a missing directory yields Ok(0) through definitely_cleanup; '
    'every Err of an operation implies a counted hard fault (or an invalid name / absent source).',
    replayer=replay_c05, thorough=thorough_c05,
    not_covered=[CONC_NC, SHARD_NC, STACK_NC])
_u4('C06', 'Proof of termination (decreases on every loop) and of closed-form bounds on the number of own filesystem calls: get <= 6, touch <= 2, set <= 22, put <= 26 outside '
    'maintenance; collect <= 2*(2+2L), prune <= 2*(2+3L), maintenance <= 2*(4+3L) for L directory items read (every bound is twice the current count on purpose: the property asks for a constant, resp. linear, bound, not for today\'s number of calls; open attempts are bounded exactly). The lock and wait primitives (File::lock*, try_lock*, unlock, libc::flock, thread::sleep, yield_now, spin_loop) exist as stand-ins whose precondition is `false`, so any call to one is a failed obligation, '
    'and no retry-until loop can be given a decreases measure.',
    replayer=replay_c06, thorough=thorough_c20('C06'),
    not_covered=[CONC_NC, 'regenerate() terminates with probability 1 only', SHARD_NC, STACK_NC])
_u4('C20', 'Proof that the step and open counts of get/touch/set/put outside maintenance are constants independent of the directory population (the postconditions are closed '
    'formulas with 100% slack on calls and none on opens: <=6 calls/1 open, <=2/0, <=22/0, <=26/0) and that no directory item is read (listed unchanged) unless the trigger fires.',
    replayer=replay_c20, thorough=thorough_c20('C20'),
    not_covered=['peak and residual open descriptors are not provable by contract (closing is Drop): they are only observed, bounded, by the system-call trace of replay/src/c20.rs', SHARD_NC, STACK_NC])
_u4('C15', 'Proof that lookups change nothing but the access time of the entry found (files, dirs equal; every inode equal up to atime, and only the found one), and that every '
    'mutating stub (rename, link, unlink, chmod, utimensat with mtime, mkdir) requires its target not to be under a read-only root.',
    replayer=_native_c11('C15'), thorough=_thorough_c11('C15'),
    not_covered=['that ReadOnlyCache / the read side of Cache only ever call get and touch is part of the stack unit', STACK_NC, SHARD_NC])
_u4('C11', 'Proof of the exact sequential effect of plain-directory operations over the ghost filesystem: get returns a handle on the inode bound to child(base,name) or None iff absent; '
    'set binds the key to the source inode, consumes the source, after maintenance; put inserts when absent and otherwise only marks; every disappearance is a plan victim '
    'of a directory that was listed (cleanup_frame) or a stale temp file.',
    replayer=_native_c11('C11'), thorough=_thorough_c11('C11'),
    not_covered=[SHARD_NC, STACK_NC, 'the lifting from per-operation effects to whole histories is the standard induction, not mechanised'])
_u4('C01', 'Proof (sequential model) of the publish protocol and of what lookups return: a file becomes visible under a key only through rename/link whose precondition demands a private, '
    'read-only, freshly stamped source holding bytes supplied for exactly that key; only a file no reader can see is ever written (preconditions of the copy and populate stubs); published '
    'inodes are never written or made writable; no write changes the bytes of any file (bytes_kept). Every handle returned by CacheDir::get, plain/sharded get, ReadOnlyCache::get, '
    'Cache::get::doit and Cache::get_or_update denotes an inode whose bytes are a value supplied for exactly that key (postcondition, from World.valid).',
    replayer=_native('c13', [], []),
    not_covered=[CONC_NC, SHARD_NC, STACK_NC])
_u4('C19', 'Proof that every handle returned by CacheDir::get, plain/sharded get, ReadOnlyCache::get, Cache::get::doit and Cache::get_or_update is positioned at offset 0, and is read-only '
    'unless it is the fresh throw-away file of a cache without write side; that finalize_tempfile forces mode 0444 whatever the umask (fchmod with the constant 0o444, bit-vector proof that '
    'it has no write bit) on every file the library populates or receives as a temp-file object before it reaches set/put; that set_read_only clears the write bits before any publication '
    '(publish guarantee) and that chmod may add write permission only to an inode no visible name binds.',
    replayer=_native('c13', [], []),
    not_covered=['umask itself is not modelled: the proof is that the mode passed to fchmod is the constant 0o444'])
_u4('C03', 'Proof that rename/link require `must_sync ==> synced` and `!writable` of the source (publish guarantee) at both publishing sites of raw_cache; that set/put of the FullCache trait '
    'require a flushed source when auto_sync is on (value_ok), and that every publishing path of stack.rs establishes it: set::doit / put::doit through maybe_sync_path (open + fsync, '
    'documented panic on failure), set_temp_file / put_temp_file / get_or_update miss and replace through Cache::finalize_tempfile, promotion through finalize_tempfile(tmp, auto_sync) '
    'after the copy; a failed flush returns Err before any publication; nothing clears the synced flag except writing, and only invisible files are ever written.',
    replayer=replay_c03, thorough=thorough_c18('C03'),
    not_covered=['the two-line shims Cache::{set, put, set_temp_file, put_temp_file} that forward to the `doit` functions under contract are generic and dropped'])
PROPS['C10']['units'] = ['u2_trigger', 'u0_stubs', 'u6_stack']
PROPS['C10']['assumptions'] += FS_ASSUMPTIONS
PROPS['C10']['not_covered'] = []
PROPS['C10']['level_text'] += (' In the filesystem unit: plain::Cache::new builds the trigger with period capacity/3; CacheDir::maybe_cleanup is exactly one trigger event and runs the whole '
                                'maintenance iff it fires, with no filesystem call otherwise; set/put call it before their first publishing step (cleanup_frame keeps `published` unchanged).')
PROPS['C08']['units'] = ['u1_planner']
PROPS['C12']['units'] = ['u3_hash', 'u0_stubs', 'u6_stack']
PROPS['C12']['assumptions'] += FS_ASSUMPTIONS
PROPS['C12']['not_covered'] = []
PROPS['C12']['level_text'] += (' Filesystem level (unit U5): sharded::Cache::new clamps n < 2 to 2; shard(i) is child(root, fmt_shard(i)); get/touch probe the primary candidate first and the '
                                'secondary only on a miss; set/put create links only under the two candidate entry paths; sort_by_load returns the pair or its swap (estimates merely choose).')

STACK_ASSUME = [
    'a consistency checker only reads its two files (the handles keep denoting the same inodes and stay read-only) and its verdict is a function of the two files '
    '(contract of the stand-in ConsistencyChecker::call, which replaces `Arc<dyn Fn(&mut File, &mut File) -> Result<()> + markers>`: T7)',
    'the generic public shims of ReadOnlyCache / Cache are specialised to `Key` (T11) or dropped (one forwarding call each)',
    'Cache.consistency_checker and the read side hold the same checker: precondition of get_or_update, established by CacheBuilder::build from the builder invariant that '
    'arc_consistency_checker / clear_consistency_checker are proved to maintain (the derived Default, i.e. both None, and the generic wrapper consistency_checker(impl Fn) -> Arc::new are not under contract)',
    'populate callback (stand-in call_populate, T1): it writes only the file it is handed and may read anything; on success what it wrote is by definition a value supplied for this key; '
    'any error it returns is counted in World.app_errors',
    'judge callback (precondition judge_reads_only of get_or_update): it hands back the same handle (it may read and seek it)',
    'read-only roots hold only files that other Kismet writers published (World.ro_valid, part of the invariant the stubs preserve because no mutating stub accepts a path under a read-only root)',
    'std::io::copy, tempfile::{tempfile, tempfile_in, NamedTempFile::{new_in, as_file_mut, into_parts}} as written in contracts/prelude (copy is one atomic step; anonymous temporary files have no name)',
    'T14: `opt.and_then(|c| c.get(key).transpose()).transpose()` is rewritten to the equal match expression; `self.write_side.as_ref().map(Arc::as_ref)` to the stand-in opt_arc_as_ref',
    'the iterator-taking builder methods (plain_caches, plain_readers), `take`, the generic `consistency_checker(impl Fn)` wrappers and the derived Default impls are not under contract (the other builder methods are: a reader is appended at the end of the search list, a writer replaces the write cache, each with the lookup function of the directory it was given)',
]
_u4('C13', 'Unbounded proof, for stacks of any depth: ReadOnlyCache::get/touch return / mark the copy of the first level in registration order that holds one '
    '(first_copy) and report a miss only if no level holds one; Cache::get::doit / touch::doit consult the write cache first. Cache::get_or_update (the verbatim body, generic in '
    'judge and populate): a write-cache hit is passed to the judge as Primary, otherwise the first read-only copy as Secondary (exists over call_ensures of the judge); '
    'Accept, and Promote of a primary hit or without a write cache, return the hit with no publication and no change to any name a lookup resolves (namespace_same); Promote of a '
    'secondary hit returns the hit and publishes an identical copy (promote: whole-file copy into a fresh .kismet_temp file, finalize, put); Replace returns a fresh inode and, '
    'with a write cache, publishes it (set); a miss publishes the populated file (put) or, without a write cache, returns a fresh throw-away file and changes no name; '
    'set_impl / put_impl without a write cache fail as Unsupported with the World unchanged.',
    replayer=_native('c13', [], []), thorough=_thorough_native('C13', 'c13', [], 'real Cache::get_or_update over writer {none, plain, sharded} x key location x action x populate outcome x checker'),
    not_covered=['that a published copy stays bound afterwards is not claimed for sharded write caches (a forced maintenance of the same shard may evict it)'],
    extra_assume=STACK_ASSUME)
_u4('C14', 'Unbounded proof, for stacks of any depth: with a checker configured, ReadOnlyCache::get succeeds only if the checker accepted the first copy against every copy held by a later '
    'level (later_copies_accepted); Cache::get::doit and Cache::get_or_update with a write-side hit only if the checker accepted that hit against the first read-only copy and that copy '
    'against every later one (read_copies_accepted); get_or_update with an accepted or promoted hit returns Ok only if populate reported NotFound (World.app_not_found grew) or the checker '
    'accepted the hit against a freshly created, populated file; a rejected comparison or a failed lookup reaches the caller as Err; without a checker no level after the first hit is consulted; the builder installs a checker on both sides (CacheBuilder::arc_consistency_checker / build maintain and use the invariant that both sides hold the same checker); the stock byte_equality_checker returns Ok exactly when the remaining bytes of the two files are equal (Err on a difference or a failed read).',
    replayer=_native('c13', [], []),
    not_covered=['checker panics (no catch_unwind exists in the functions under contract; unwinding is not a contract)',
                 ],
    extra_assume=STACK_ASSUME)

# ---- additions of rounds 4-6 (see DESIGN sections 18-19) -------------------------------------------------------------------
PROPS['C10']['level_text'] += (' The ordering "maintenance runs before the write\'s own insertion" is also a clause without a witness: the ghost field World.pub_listed '
                                'records the number of directory items read at the last successful publish step, and CacheDir::{set,put} ensure that no item was read after it.')
PROPS['C07']['level_text'] += (' CacheDir::{definitely_cleanup, maintain} ensure that, fault-free, the plan applied is the one for the *configured* capacity (then only stale temporary '
                               'files go); sharded::Cache::new ensures that a shard\'s capacity is the total divided by the number of shards, rounded up.')
PROPS['C11']['level_text'] += (' Every disappearance is attributable to the plan for the configured capacity (same clause as C07), shard capacity = ceil(total / shards).')
PROPS['C03']['level_text'] += (' A failed fsync is sticky in the model (Inode.flush_failed): a later successful fsync does not make the file publishable.')
PROPS['C05']['level_text'] += (' The one stand-in that models losing a race is std::fs::create_dir: it may fail with AlreadyExists whatever the state says, and that is never a fault, '
                               'so letting it through fails "every error is an invalid name, an absent source or a real fault".')
PROPS['C17']['level_text'] += (' remove_dir / remove_dir_all have precondition false.')
for _p in ('C06', 'C20'):
    PROPS[_p]['level_text'] += (' Bounded, next to the proof and never counted as proved: a system-call trace of the real crate (replay/src/c20.rs) for identical call counts across '
                                'directory sizes, absence of lock and sleep calls, peak and residual descriptors, and completion of a put/set onto an entry with an extra hard link.')
PROPS['C02']['level_text'] += (' Bounded, next to the proof and never counted as proved: the real crate is killed at every boundary between two filesystem calls of an operation '
                               '(replay/src/c02.rs) and a second process inspects and uses the directories.')
for _p in ('C18', 'C03'):
    PROPS[_p]['level_text'] += (' Bounded, next to the proof and never counted as proved: single-fault injection into every system call of each operation of the real crate '
                                '(replay/src/c18.rs): no undocumented panic, Ok implies the effect, re-issue succeeds, visible files are complete and read-only, no temporary file '
                                'is left, a failed flush is never followed by publication.')
for _p in PROPS:
    if PROPS[_p].get('replayer') is not None:
        PROPS[_p]['level_note'] = PROPS[_p].get('level_note', '') + (' A bounded native search of the real crate runs next to every quick check (coverage.bounded): it can only add a '
                                                                     'violation with a concrete failing input, never an OK.')

replay_c06.what = replay_c20.what + ('; plus: a file that maintenance has listed vanishes before it is examined (ENOENT injected into the stat of each directory entry in turn, '
                                     'also for a direct raw_cache::prune and for stale files in .kismet_temp): the operation must still succeed; and set / put of a source path that does not exist must return an error within five seconds (in-process watchdog)')
replay_c03.what = replay_c18.what + ('; plus the system-call trace of the C20 search, which compares set / ensure / put through a cache from a builder reused after take() with '
                                     'the same calls through a cache from a fresh builder (the flush before publication must be there)')

NOT_CLAIMED = {
    'C04': 'linearizability under real interleavings needs interference in the filesystem stubs; the contracts built here are sequential (per-operation atomic steps are visible in C11/C01 evidence)',
    'C12': None,
}
NOT_CLAIMED = {k: v for k, v in NOT_CLAIMED.items() if v}

