"""U0: justification of the filesystem stand-ins (no code from /repo).

For every stand-in that takes the ghost World and ensures `final(w).inv()`, tools/stubjust.py generates a lemma
"protocol precondition + stated effect ==> invariant" from the stub's own contract text; Verus proves them here.
What cannot be proved is listed in stubjust.ASSUMED and reported as an unjustified assumption."""
import os
import sys

SERVES = ['C01', 'C02', 'C03', 'C15', 'C16', 'C17', 'C18', 'C19']
VERUS_FLAGS = ['--no-trait-conflicts']
PRELUDES = ['world.rs', 'vfs.rs', 'stack_env.rs']
STUB_FILES = ['vfs.rs', 'stack_env.rs']


def build(u):
    sys.path.insert(0, os.path.join(os.path.dirname(os.path.dirname(os.path.dirname(os.path.abspath(__file__)))), 'tools'))
    import stubjust
    base = os.path.join(os.path.dirname(os.path.dirname(os.path.abspath(__file__))), 'prelude')
    for f in PRELUDES:
        u.prelude(f)
    files = [(f, open(os.path.join(base, f)).read()) for f in STUB_FILES]
    txt, names, skipped = stubjust.generate(files, None)
    u.text('pub mod stub_justification {\nuse vstd::prelude::*;\nuse crate::*;\nuse crate::std;\nuse crate::std::path::Path;\nuse crate::std::borrow::Cow;\nuse crate::filetime::*;\n'
           'use crate::std::fs::*;\nuse crate::std::io::*;\nuse crate::std::time::*;\nuse crate::tempfile::*;\n' + txt + '\n}\n', origin='tools/stubjust.py')
    u.stub_lemmas = names
    u.stub_assumed = skipped
    return u
