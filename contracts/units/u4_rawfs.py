"""U4: filesystem protocol of one cache directory (benign_error.rs, raw_cache.rs, cache_dir.rs, plain.rs)."""
import importlib.util
import os

SERVES = ['C01', 'C02', 'C03', 'C05', 'C06', 'C07', 'C09', 'C10', 'C11', 'C15', 'C16', 'C17', 'C18', 'C19', 'C20']
VERUS_FLAGS = ['--no-trait-conflicts']
W = 'Tracked(w): Tracked<&mut World>'
TW = 'Tracked(w)'

MOD_HEAD = ('use super::*;\nuse crate::std;\nuse crate::filetime;\nuse crate::libc;\n'
            'use crate::filetime::FileTime;\nuse crate::std::io::Error;\nuse crate::std::io::ErrorKind;\nuse crate::std::io::Result;\n')


# T1 table: every function that takes the ghost World (POSIX/std/filetime stand-ins and the crate's own
# functions under contract).  A call to any of them, wherever it appears in a function under contract,
# gains `Tracked(w)`; a new call site introduced by a change is therefore threaded, not a lost anchor.
WORLD_CALLEES = [
    'std :: fs :: remove_file', 'std :: fs :: symlink_metadata', 'std :: fs :: metadata', 'std :: fs :: set_permissions',
    'std :: fs :: rename', 'std :: fs :: hard_link', 'std :: fs :: create_dir_all', 'std :: fs :: create_dir', 'std :: fs :: remove_dir', 'std :: fs :: remove_dir_all', 'std :: fs :: copy', 'std :: fs :: read_dir', 'std :: fs :: File :: open',
    'File :: open', 'std :: fs :: File :: create', 'File :: create', '. open', '. metadata', 'filetime :: set_file_times', 'filetime :: set_file_atime', 'filetime :: set_file_handle_times',
    'FileTime :: now', 'std :: time :: SystemTime :: now', 'SystemTime :: now',
    'move_to_back_of_list', 'set_read_only', 'ensure_file_removed', 'ensure_file_touched', 'raw_cache :: ensure_file_touched',
    'collect_cached_files', 'apply_update', 'raw_cache :: prune', 'prune', 'ensure_directory', 'cleanup_temporary_directory',
    'libc :: close', 'close', '. seek', '. rewind', '. stream_position', '. set_len', '. reopen', '. sync_all', '. sync_all_or_panic', '. set_permissions', 'NamedTempFile :: new_in', '. tempfile_in', 'CacheDir :: get', 'CacheDir :: touch', 'CacheDir :: set', 'CacheDir :: put', 'CacheDir :: ensure_temp_dir', 'CacheDir :: maintain', 'CacheDir :: maybe_cleanup', 'CacheDir :: definitely_cleanup', 'CacheDir :: cleanup_temp_directory', 'finalize_tempfile', 'fix_tempfile_permissions', '. finalize_tempfile', '. maybe_sync_path', '. set_impl', '. put_impl', '. ensure_temp_dir', '. cleanup_temp_directory', '. definitely_cleanup', '. maybe_cleanup', '. maintain', '. event', '. weighted_event',
]


def _unit(name):
    p = os.path.join(os.path.dirname(os.path.abspath(__file__)), name + '.py')
    spec = importlib.util.spec_from_file_location(name, p)
    m = importlib.util.module_from_spec(spec)
    spec.loader.exec_module(m)
    return m


def weave_benign(u):
    u.text('pub mod benign_error {\n' + MOD_HEAD)
    f = u.under_contract(u.item('src/benign_error.rs', ['fn is_absent_file_error']), ['C05', 'C18'])
    f.air = 'benign_error::is_absent_file_error'
    f.contract(ensures=[('C05 C18:absent-file-errors-are-exactly-enoent-and-estale', 'r == absent_err(*error)')])
    u.text('}\n')


def weave_raw_leaves(u):
    u.text('pub mod raw_cache {\n' + MOD_HEAD + 'use crate::benign_error::is_absent_file_error;\n')
    c = u.item('src/raw_cache.rs', ['const ENFORCED_ATIME_MTIME_DELTA_SEC'])

    f = u.under_contract(u.item('src/raw_cache.rs', ['fn ensure_file_removed']), ['C02', 'C05', 'C18', 'C17', 'C06'])
    f.air = 'raw_cache::ensure_file_removed'
    f.add_param(W)
    f.add_arg('std :: fs :: remove_file', TW)
    f.contract(
        requires=[('', 'old(w).inv()'), ('', 'old(w).may_mutate(pv(path))')],
        ensures=[
            ('C02:valid-on-every-exit', 'final(w).inv()'),
            ('C06 C20:one-filesystem-call', 'final(w).steps <= old(w).steps + 2 * (1) && final(w).opens == old(w).opens'),
            ('C18 C05 C06:removal-succeeds-or-reports-a-real-fault',
             'old(w).solo ==> (r.is_ok() ==> final(w).files == old(w).files.remove(pv(path)) && final(w).dirs == old(w).dirs '
             '&& final(w).inodes == old(w).inodes && final(w).hard_faults == old(w).hard_faults)'),
            ('C05 C18 C06:error-means-hard-fault', 'old(w).solo ==> (r.is_err() ==> final(w).hard_faults > old(w).hard_faults && final(w).same_fs(*old(w)))'),
            ('', 'final(w).kept(*old(w)) && final(w).now == old(w).now && final(w).published == old(w).published && final(w).listed == old(w).listed'),
        ])

    # spec helper that mentions the crate's own constant
    u.text('''
/// The crate's own atime/mtime gap, in ns (body visible inside this module only).
pub closed spec fn stamp_delta_ns() -> int {
    ENFORCED_ATIME_MTIME_DELTA_SEC as int * ns_per_sec()
}

/// The inode as re-stamped by `move_to_back_of_list` at clock reading `t`.
pub open spec fn stamped(ino: Inode, t: int, gran: int) -> Inode {
    Inode { mtime: trunc(t, gran), atime: trunc(t - stamp_delta_ns(), gran), ..ino }
}

/// The inode as it is when it becomes visible: stamped, then made read-only.
pub open spec fn published_inode(ino: Inode, t: int, gran: int) -> Inode {
    Inode { writable: false, ..stamped(ino, t, gran) }
}

/// `insert_or_*` preconditions (the documented requirement that the source is private, complete and,
/// when auto_sync is on, already flushed).
pub open spec fn source_ready(w: World, from: PathV, to: PathV) -> bool {
    &&& w.is_entry(to) && !w.under_ro(to)
    &&& !w.dirs.contains(to)   // environment assumption: no directory is named like a key
    &&& w.owned.contains(from) && !w.in_cache_namespace(from) && !w.under_ro(from) && from != to
    &&& w.files.contains_key(from) ==> {
        &&& w.supplied.contains((base_name(to), w.inode_at(from).content))
        &&& (w.must_sync ==> w.inode_at(from).synced && !w.inode_at(from).flush_failed)
    }
}

/// The source's inode is not (yet) visible under any name in a cache directory.
pub open spec fn source_unaliased(w: World, from: PathV) -> bool {
    w.files.contains_key(from) ==> forall|q: PathV| #[trigger] w.files.contains_key(q) && w.files[q] == w.files[from] ==> !w.in_cache_namespace(q)
}

/// What one (possibly failed) publication attempt may have done: the link set is unchanged, or exactly the
/// publication happened (with or without the source link still there); inodes changed at most in their
/// times and permission, never in content or durability.
pub open spec fn attempt_effect(old: World, fin: World, from: PathV, to: PathV) -> bool {
    &&& fin.dirs == old.dirs
    &&& (fin.files == old.files || (old.files.contains_key(from) && (fin.files =~= old.files.remove(from).insert(to, old.files[from]) || fin.files =~= old.files.insert(
        to,
        old.files[from],
    ))))
    &&& forall|i: InodeId| #[trigger] old.inodes.contains_key(i) ==> fin.inodes.contains_key(i) && (fin.inodes[i] == old.inodes[i] || (old.files.contains_key(from) && i
        == old.files[from] && fin.inodes[i] == (Inode { mtime: fin.inodes[i].mtime, atime: fin.inodes[i].atime, writable: fin.inodes[i].writable, ..old.inodes[i] }))
        || (old.files.contains_key(to) && i == old.files[to] && fin.inodes[i] == (Inode { atime: fin.inodes[i].atime, ..old.inodes[i] })))
}

/// C09: a freshly stamped entry is *not* marked as read, whatever the granularity (<= 2 s).
pub proof fn lemma_stamped_unread(ino: Inode, t: int, gran: int)
    requires
        1 <= gran <= 2 * ns_per_sec(),
    ensures
        stamped(ino, t, gran).atime < stamped(ino, t, gran).mtime,   // @L C09:fresh-stamp-clears-the-read-mark
{
    lemma_trunc(t, gran);
    lemma_trunc(t - stamp_delta_ns(), gran);
}
''')

    BOOK = ('', 'final(w).kept(*old(w)) && final(w).listed == old(w).listed')
    INV = ('C02 C18:valid-on-every-exit', 'final(w).inv()')

    f = u.under_contract(u.item('src/raw_cache.rs', ['fn move_to_back_of_list']), ['C09', 'C07', 'C02', 'C18', 'C06', 'C20', 'C05'])
    f.air = 'raw_cache::move_to_back_of_list'
    f.add_param(W)
    f.add_arg('FileTime :: now', TW)
    f.add_arg('filetime :: set_file_times', TW)
    f.contract(
        requires=[('', 'old(w).inv()'), ('', 'old(w).may_mutate(pv(path))')],
        ensures=[
            INV, BOOK,
            ('C06 C20:one-filesystem-call', 'final(w).steps <= old(w).steps + 2 * (1) && final(w).opens == old(w).opens && final(w).published == old(w).published'),
            ('C09 C07:stamp-is-now-and-clears-read-mark',
             'old(w).solo ==> (r.is_ok() ==> old(w).files.contains_key(pv(path)) && final(w).hard_faults == old(w).hard_faults '
             '&& final(w).only_inode_changed(*old(w), old(w).files[pv(path)], stamped(old(w).inode_at(pv(path)), final(w).now, old(w).gran)))'),
            ('C18 C05 C06:error-leaves-filesystem-unchanged',
             'old(w).solo ==> (r.is_err() ==> final(w).same_fs(*old(w)) && (absent_err(err_of(r)) ==> !old(w).files.contains_key(pv(path))) '
             '&& final(w).hard_faults == old(w).hard_faults + if absent_err(err_of(r)) { 0nat } else { 1nat })'),
        ])
    f.insert_before('filetime :: set_file_times',
                    'proof { assert(mtime.seconds as int - ENFORCED_ATIME_MTIME_DELTA_SEC as int >= i64::MIN as int); '
                    'assert(atime.ns() == mtime.ns() - ENFORCED_ATIME_MTIME_DELTA_SEC as int * ns_per_sec()) by (nonlinear_arith) '
                    'requires atime.seconds as int == mtime.seconds as int - ENFORCED_ATIME_MTIME_DELTA_SEC as int, atime.nanos == mtime.nanos, '
                    'atime.ns() == atime.seconds as int * ns_per_sec() + atime.nanos as int, mtime.ns() == mtime.seconds as int * ns_per_sec() + mtime.nanos as int; }\n    ')

    f = u.under_contract(u.item('src/raw_cache.rs', ['fn set_read_only']), ['C03', 'C19', 'C02', 'C18', 'C06', 'C20'])
    f.air = 'raw_cache::set_read_only'
    f.add_param(W)
    f.add_arg('std :: fs :: symlink_metadata', TW)
    f.add_arg('std :: fs :: set_permissions', TW)
    f.contract(
        requires=[('', 'old(w).inv()'), ('C03 C19 C15:chmod-only-through-a-private-path', 'old(w).owned.contains(pv(path)) && !old(w).under_ro(pv(path))')],
        ensures=[
            INV, BOOK,
            ('C06 C20:at-most-two-filesystem-calls', 'final(w).steps <= old(w).steps + 2 * (2) && final(w).opens == old(w).opens && final(w).published == old(w).published && final(w).now == old(w).now'),
            ('C03 C19 C02 C01:file-made-read-only',
             'old(w).solo ==> (r.is_ok() ==> old(w).files.contains_key(pv(path)) && final(w).hard_faults == old(w).hard_faults '
             '&& final(w).only_inode_changed(*old(w), old(w).files[pv(path)], Inode { writable: false, ..old(w).inode_at(pv(path)) }))'),
            ('C18 C05 C06:error-leaves-filesystem-unchanged',
             'old(w).solo ==> (r.is_err() ==> final(w).same_fs(*old(w)) && (absent_err(err_of(r)) ==> !old(w).files.contains_key(pv(path))) '
             '&& final(w).hard_faults == old(w).hard_faults + if absent_err(err_of(r)) { 0nat } else { 1nat })'),
        ])

    ERR_UNCHANGED = ('C18 C05 C06:error-leaves-filesystem-unchanged-and-is-a-real-fault',
                     'old(w).solo ==> (r.is_err() ==> final(w).same_fs(*old(w)) && final(w).hard_faults > old(w).hard_faults)')

    # ---- touch::run ------------------------------------------------------------------------
    u.text('pub mod touch {\nuse super::*;\nuse crate::std;\n')
    f = u.under_contract(u.item('src/raw_cache.rs', ['fn touch', 'fn run']), ['C09', 'C05', 'C13', 'C15', 'C18', 'C06', 'C20', 'C04'])
    f.air = 'raw_cache::touch::run'
    f.insert_before_tok(f.fn_kw(), 'pub ')   # visibility only: the nested fn lives in a module of its own here
    f.add_param(W)
    f.add_arg('FileTime :: now', TW)
    f.contract(
        requires=[('', 'old(w).inv()')],
        ensures=[
            INV, BOOK,
            ('C06 C20:one-filesystem-call', 'final(w).steps <= old(w).steps + 2 * (1) && final(w).opens == old(w).opens && final(w).published == old(w).published'),
            ('C09 C15:touch-marks-without-reordering',
             'old(w).solo ==> (r == Ok::<bool, Error>(true) ==> old(w).files.contains_key(pv(path)) && final(w).hard_faults == old(w).hard_faults '
             '&& final(w).only_inode_changed(*old(w), old(w).files[pv(path)], Inode { atime: trunc(final(w).now, old(w).gran), ..old(w).inode_at(pv(path)) }) '
             '&& final(w).accessed(pv(path)))'),
            ('C05 C04 C18:absence-is-reported-as-false',
             'old(w).solo ==> (r == Ok::<bool, Error>(false) ==> !old(w).files.contains_key(pv(path)) && final(w).same_fs(*old(w)) && final(w).hard_faults == old(w).hard_faults)'),
            ('C15 C05:anything-but-a-hit-changes-nothing', '!(r == Ok::<bool, Error>(true)) ==> final(w).same_fs(*old(w))'),
            ('C04 C05:touch-reports-presence-truthfully',
             'old(w).solo && r.is_ok() && !old(w).dirs.contains(pv(path)) ==> r.unwrap() == old(w).files.contains_key(pv(path))'),
            ERR_UNCHANGED,
        ])
    u.text('}\n')

    # ---- ensure_file_touched ----------------------------------------------------------------
    f = u.under_contract(u.item('src/raw_cache.rs', ['fn ensure_file_touched']), ['C09', 'C15', 'C18', 'C06', 'C20', 'C05'])
    f.air = 'raw_cache::ensure_file_touched'
    f.add_param(W)
    f.add_arg('file . metadata', TW)
    f.add_arg('filetime :: set_file_handle_times', TW)
    f.contract(
        requires=[('', 'old(w).inv()'), ('', 'old(w).inodes.contains_key(file.ino())')],
        ensures=[
            INV, BOOK,
            ('C06 C20:at-most-two-filesystem-calls', 'final(w).steps <= old(w).steps + 2 * (2) && final(w).opens == old(w).opens && final(w).published == old(w).published && final(w).now == old(w).now'),
            ('C15 C09:only-the-access-time-of-the-opened-file-may-change',
             'old(w).solo ==> final(w).only_inode_changed(*old(w), file.ino(), Inode { atime: final(w).inodes[file.ino()].atime, ..old(w).inodes[file.ino()] })'),
            ('C09:opened-file-is-marked-read-whatever-the-atime-policy',
             'old(w).solo ==> (r.is_ok() ==> final(w).inodes[file.ino()].atime >= final(w).inodes[file.ino()].mtime && final(w).hard_faults == old(w).hard_faults)'),
            ('C18:error-is-a-real-fault', 'old(w).solo ==> (r.is_err() ==> final(w).hard_faults > old(w).hard_faults)'),
        ])
    f.insert_after_stmt('let mtime = FileTime :: from_last_modification_time',
                   '\n    proof { filetime::lemma_lex_is_ns(atime, mtime); lemma_trunc(mtime.ns(), old(w).gran); }')
    f.add_arg_if_present('FileTime :: now', TW)

    # ---- insert_or_update::run -------------------------------------------------------------
    u.text('pub mod insert_or_update {\nuse super::*;\nuse crate::std;\n')
    f = u.under_contract(u.item('src/raw_cache.rs', ['fn insert_or_update', 'fn run']),
                         ['C01', 'C02', 'C03', 'C04', 'C09', 'C11', 'C16', 'C18', 'C19', 'C05', 'C06', 'C20'])
    f.air = 'raw_cache::insert_or_update::run'
    f.insert_before_tok(f.fn_kw(), 'pub ')   # visibility only: the nested fn lives in a module of its own here
    f.add_param(W)
    f.thread(['move_to_back_of_list', 'set_read_only', 'std :: fs :: rename', 'ensure_file_removed', 'std :: fs :: copy'])
    f.contract(
        requires=[('', 'old(w).inv()'),
                  ('C01 C03 C16:caller-hands-in-a-private-finished-file-for-an-entry-path', 'source_ready(*old(w), pv(from), pv(to))')],
        ensures=[
            INV, BOOK,
            ('C06 C20:at-most-five-filesystem-calls', 'final(w).steps <= old(w).steps + 2 * (5) && final(w).opens == old(w).opens && final(w).published <= old(w).published + 1'),
            ('C11 C04 C09 C19 C18:set-binds-the-value-fresh-unread-readonly-and-consumes-the-source',
             'old(w).solo ==> (r.is_ok() ==> old(w).files.contains_key(pv(from)) && old(w).dirs.contains(parent(pv(to))) '
             '&& final(w).files =~= old(w).files.remove(pv(from)).insert(pv(to), old(w).files[pv(from)]) && final(w).dirs == old(w).dirs '
             '&& final(w).inodes =~= old(w).inodes.insert(old(w).files[pv(from)], published_inode(old(w).inode_at(pv(from)), final(w).now, old(w).gran)) '
             '&& final(w).hard_faults == old(w).hard_faults && final(w).published == old(w).published + 1)'),
            ('C18 C05 C06:error-is-explained',
             'old(w).solo ==> (r.is_err() ==> final(w).dirs == old(w).dirs && (final(w).hard_faults > old(w).hard_faults || !old(w).files.contains_key(pv(from)) '
             '|| !old(w).dirs.contains(parent(pv(to)))))'),
            ('C01 C03 C19:publishing-never-changes-the-bytes-of-any-file', 'bytes_kept(*old(w), *final(w))'),
            ('C10 C09:no-directory-scan-follows-the-publication', 'final(w).published > old(w).published ==> final(w).pub_listed == final(w).listed'),
            ('C18 C02:on-error-either-nothing-or-exactly-the-publication-happened',
             'r.is_err() ==> attempt_effect(*old(w), *final(w), pv(from), pv(to))'),
            ('C18 C02:failed-publication-leaves-entries-alone',
             'r.is_err() && final(w).published == old(w).published ==> final(w).files == old(w).files'),
            ('C18 C05 C06:without-a-real-fault-a-failed-attempt-published-nothing',
             'r.is_err() && final(w).hard_faults == old(w).hard_faults ==> final(w).published == old(w).published && final(w).files == old(w).files '
             '&& forall|i: InodeId| old(w).inodes.contains_key(i) && !(old(w).files.contains_key(pv(from)) && i == old(w).files[pv(from)]) ==> #[trigger] final(w).inodes[i] == old(w).inodes[i]'),
        ])
    f.insert_after_stmt('move_to_back_of_list (', '\n        proof { lemma_stamped_unread(old(w).inode_at(pv(from)), w.now, w.gran); }')
    u.text('}\n')

    # ---- insert_or_touch::run --------------------------------------------------------------
    u.text('pub mod insert_or_touch {\nuse super::*;\nuse crate::std;\n')
    f = u.under_contract(u.item('src/raw_cache.rs', ['fn insert_or_touch', 'fn run']),
                         ['C01', 'C02', 'C03', 'C04', 'C09', 'C11', 'C16', 'C18', 'C19', 'C05', 'C06', 'C20'])
    f.air = 'raw_cache::insert_or_touch::run'
    f.insert_before_tok(f.fn_kw(), 'pub ')   # visibility only: the nested fn lives in a module of its own here
    f.add_param(W)
    f.thread(['move_to_back_of_list', 'set_read_only', 'std :: fs :: hard_link', 'ensure_file_removed', 'std :: fs :: copy'])
    f.replace('touch ( to )', 'touch::run(to, Tracked(w))', 'T2-shim-bypass')
    f.contract(
        requires=[('', 'old(w).inv()'),
                  ('C01 C03 C16:caller-hands-in-a-private-finished-file-for-an-entry-path', 'source_ready(*old(w), pv(from), pv(to))')],
        ensures=[
            INV, BOOK,
            ('C06 C20:at-most-six-filesystem-calls', 'final(w).steps <= old(w).steps + 2 * (6) && final(w).opens == old(w).opens && final(w).published <= old(w).published + 1'),
            ('C11 C04 C09 C18:put-inserts-fresh-when-absent',
             'old(w).solo ==> (r.is_ok() && !old(w).files.contains_key(pv(to)) ==> old(w).files.contains_key(pv(from)) && old(w).dirs.contains(parent(pv(to))) '
             '&& final(w).files =~= old(w).files.remove(pv(from)).insert(pv(to), old(w).files[pv(from)]) && final(w).dirs == old(w).dirs '
             '&& final(w).inodes =~= old(w).inodes.insert(old(w).files[pv(from)], published_inode(old(w).inode_at(pv(from)), final(w).now, old(w).gran)) '
             '&& final(w).hard_faults == old(w).hard_faults && final(w).published == old(w).published + 1)'),
            ('C11 C04 C18:put-never-overwrites-an-existing-entry',
             'r.is_ok() && old(w).files.contains_key(pv(to)) ==> old(w).files.contains_key(pv(from)) '
             '&& final(w).files =~= old(w).files.remove(pv(from)) && final(w).dirs == old(w).dirs && final(w).published == old(w).published '
             '&& final(w).hard_faults == old(w).hard_faults'),
            ('C09 C11 C01:put-on-an-existing-entry-marks-it-as-read-and-leaves-content-and-queue-position-alone',
             'source_unaliased(*old(w), pv(from)) ==> (r.is_ok() && old(w).files.contains_key(pv(to)) ==> '
             'final(w).inode_at(pv(to)) == (Inode { atime: final(w).inode_at(pv(to)).atime, ..old(w).inode_at(pv(to)) }) && final(w).accessed(pv(to)) '
             '&& forall|i: InodeId| i != old(w).files[pv(from)] && i != old(w).files[pv(to)] && old(w).inodes.contains_key(i) ==> #[trigger] final(w).inodes[i] == old(w).inodes[i])'),
            ('C18 C05 C06:error-is-explained',
             'old(w).solo ==> (r.is_err() ==> final(w).dirs == old(w).dirs && (final(w).hard_faults > old(w).hard_faults || !old(w).files.contains_key(pv(from)) '
             '|| !old(w).dirs.contains(parent(pv(to)))))'),
            ('C01 C03 C19:publishing-never-changes-the-bytes-of-any-file', 'bytes_kept(*old(w), *final(w))'),
            ('C10 C09:no-directory-scan-follows-the-publication', 'final(w).published > old(w).published ==> final(w).pub_listed == final(w).listed'),
            ('C18 C02:on-error-either-nothing-or-exactly-the-publication-happened',
             'r.is_err() ==> attempt_effect(*old(w), *final(w), pv(from), pv(to))'),
            ('C18 C02:failed-publication-leaves-entries-alone',
             'r.is_err() && final(w).published == old(w).published ==> final(w).files == old(w).files'),
            ('C18 C05 C06:without-a-real-fault-a-failed-attempt-published-nothing',
             'r.is_err() && final(w).hard_faults == old(w).hard_faults ==> final(w).published == old(w).published && final(w).files == old(w).files '
             '&& forall|i: InodeId| old(w).inodes.contains_key(i) && !(old(w).files.contains_key(pv(from)) && i == old(w).files[pv(from)]) ==> #[trigger] final(w).inodes[i] == old(w).inodes[i]'),
        ])
    f.insert_after_stmt('move_to_back_of_list (', '\n        proof { lemma_stamped_unread(old(w).inode_at(pv(from)), w.now, w.gran); }')
    u.text('}\n')


def weave_maintenance(u):
    """collect_cached_files / apply_update / prune (C07 C17) on top of the planner's contract (U1)."""
    u.text('use crate::second_chance;\nuse crate::second_chance::Entry;\nuse crate::std::fs::DirEntry;\n')
    INV = ('C02 C18:valid-on-every-exit', 'final(w).inv()')
    BOOK = ('', 'final(w).kept(*old(w))')

    st = u.item('src/raw_cache.rs', ['struct CachedFile'])
    # visibility only (spec functions of the public trait `Entry` mention the fields)
    st.insert_before('struct CachedFile', 'pub ')
    for fld in ('entry :', 'mtime :', 'accessed :'):
        st.insert_before(fld, 'pub ')

    # impl Entry for CachedFile: the spec twins are the fields themselves
    ie = u.item('src/raw_cache.rs', ['impl Entry for CachedFile'])
    ie.drop_inner_attrs('# [ inline ]')
    rk = ie.sub(['fn rank'])
    rk.insert_before_tok(rk.fn_kw(), 'open spec fn spec_rank(&self) -> FileTime { self.mtime }\n\n    ')
    ac = ie.sub(['fn accessed'])
    ac.insert_before_tok(ac.fn_kw(), 'open spec fn spec_accessed(&self) -> bool { self.accessed }\n\n    ')

    ic = u.item('src/raw_cache.rs', ['impl CachedFile'])
    nw = u.under_contract(ic.sub(['fn new']), ['C07', 'C09'])
    nw.air = 'raw_cache::CachedFile::new'
    nw.contract(ensures=[
        ('C07 C09:read-mark-is-atime-not-before-mtime',
         'r.entry == entry && r.mtime.wf() && r.mtime.ns() == meta.view().mtime && r.accessed == (meta.view().atime >= meta.view().mtime)'),
    ])
    nw.insert_before('CachedFile { entry ,', 'proof { filetime::lemma_lex_is_ns(atime, mtime); }\n        ')

    u.text('''
/// What `collect_cached_files` must return for directory `dir` in world `w`: one record per listed
/// regular file, carrying that file's current queue position (mtime) and read mark.
pub open spec fn record_ok(c: CachedFile, w: World, dir: PathV) -> bool {
    &&& c.entry.dir() == dir
    &&& single_component(c.entry.name())
    &&& c.entry.name()[0] != 0x2e   // C17: dot-prefixed files are never records
    &&& w.files.contains_key(child(dir, c.entry.name()))
    &&& c.mtime.wf()
    &&& c.mtime.ns() == w.inode_at(child(dir, c.entry.name())).mtime
    &&& c.accessed == w.accessed(child(dir, c.entry.name()))
}

/// Every record was taken from one of the first k items of the listing.
pub open spec fn from_prefix(cache: Seq<CachedFile>, l0: Seq<Option<Seq<u8>>>, k: int) -> bool {
    forall|i: int| 0 <= i < cache.len() ==> exists|j: int| 0 <= j < k && #[trigger] l0[j] == Some((#[trigger] cache[i]).entry.name())
}

/// Among the first k items of the listing (none of which failed), every regular file is recorded.
pub open spec fn prefix_complete(cache: Seq<CachedFile>, l0: Seq<Option<Seq<u8>>>, k: int, w: World, dir: PathV) -> bool {
    forall|j: int| 0 <= j < k ==> (#[trigger] l0[j]).is_some() && (w.files.contains_key(child(dir, l0[j].unwrap())) && l0[j].unwrap()[0] != 0x2e ==> exists|i: int|
        0 <= i < cache.len() && (#[trigger] cache[i]).entry.name() == l0[j].unwrap())
}

pub proof fn lemma_skip_item(cache: Seq<CachedFile>, l0: Seq<Option<Seq<u8>>>, k: int, w: World, dir: PathV, complete: bool)
    requires
        0 < k <= l0.len(),
        from_prefix(cache, l0, k - 1),
        complete ==> prefix_complete(cache, l0, k - 1, w, dir),
        complete ==> l0[k - 1].is_some() && (!w.files.contains_key(child(dir, l0[k - 1].unwrap())) || l0[k - 1].unwrap()[0] == 0x2e),
    ensures
        from_prefix(cache, l0, k),
        complete ==> prefix_complete(cache, l0, k, w, dir),
{
    assert forall|i: int| 0 <= i < cache.len() implies exists|j: int| 0 <= j < k && #[trigger] l0[j] == Some((#[trigger] cache[i]).entry.name()) by {
        let j = choose|j: int| 0 <= j < k - 1 && #[trigger] l0[j] == Some(cache[i].entry.name());
        assert(0 <= j < k && l0[j] == Some(cache[i].entry.name()));
    }
}

#[verifier::rlimit(120)]
pub proof fn lemma_push_record(c0: Seq<CachedFile>, c: CachedFile, l0: Seq<Option<Seq<u8>>>, k: int, w: World, dir: PathV, complete: bool)
    requires
        0 < k <= l0.len(),
        listing_of(l0, w, dir),
        records_ok(c0, w, dir),
        record_ok(c, w, dir),
        l0[k - 1] == Some(c.entry.name()),
        from_prefix(c0, l0, k - 1),
        complete ==> prefix_complete(c0, l0, k - 1, w, dir),
    ensures
        records_ok(c0.push(c), w, dir),
        from_prefix(c0.push(c), l0, k),
        complete ==> prefix_complete(c0.push(c), l0, k, w, dir),
{
    let c1 = c0.push(c);
    assert forall|i: int, j: int| 0 <= i < j < c1.len() implies (#[trigger] c1[i]).entry.name() != (#[trigger] c1[j]).entry.name() by {
        if j == c0.len() {
            let jj = choose|jj: int| 0 <= jj < k - 1 && #[trigger] l0[jj] == Some(c0[i].entry.name());
            assert(l0[jj].unwrap() != l0[k - 1].unwrap());
        } else {
            assert(c1[i] == c0[i] && c1[j] == c0[j]);
        }
    }
    assert forall|i: int| 0 <= i < c1.len() implies record_ok(#[trigger] c1[i], w, dir) by {
        if i < c0.len() {
            assert(c1[i] == c0[i]);
        }
    }
    assert forall|i: int| 0 <= i < c1.len() implies exists|j: int| 0 <= j < k && #[trigger] l0[j] == Some((#[trigger] c1[i]).entry.name()) by {
        if i < c0.len() {
            assert(c1[i] == c0[i]);
            let j = choose|j: int| 0 <= j < k - 1 && #[trigger] l0[j] == Some(c0[i].entry.name());
            assert(0 <= j < k && l0[j] == Some(c1[i].entry.name()));
        } else {
            assert(l0[k - 1] == Some(c1[i].entry.name()));
        }
    }
    if complete {
        assert forall|j: int| 0 <= j < k implies (#[trigger] l0[j]).is_some() && (w.files.contains_key(child(dir, l0[j].unwrap())) && l0[j].unwrap()[0] != 0x2e ==> exists|i: int|
            0 <= i < c1.len() && (#[trigger] c1[i]).entry.name() == l0[j].unwrap()) by {
            if j < k - 1 {
                if w.files.contains_key(child(dir, l0[j].unwrap())) && l0[j].unwrap()[0] != 0x2e {
                    let i = choose|i: int| 0 <= i < c0.len() && (#[trigger] c0[i]).entry.name() == l0[j].unwrap();
                    assert(c1[i] == c0[i]);
                }
            } else {
                assert(c1[c0.len() as int] == c);
            }
        }
    }
}

/// Every regular file directly inside `dir` and outside the dot namespace has a record.
pub open spec fn all_files_recorded(cache: Seq<CachedFile>, w: World, dir: PathV) -> bool {
    forall|n: Seq<u8>| #[trigger] w.files.contains_key(child(dir, n)) && n.len() > 0 && n[0] != 0x2e ==> exists|i: int| 0 <= i < cache.len() && (#[trigger] cache[i]).entry.name() == n
}

pub proof fn lemma_listing_complete(cache: Seq<CachedFile>, l0: Seq<Option<Seq<u8>>>, w: World, dir: PathV)
    requires
        listing_of(l0, w, dir),
        prefix_complete(cache, l0, l0.len() as int, w, dir),
    ensures
        all_files_recorded(cache, w, dir),
{
    assert forall|n: Seq<u8>| #[trigger] w.files.contains_key(child(dir, n)) && n.len() > 0 && n[0] != 0x2e implies exists|i: int| 0 <= i < cache.len() && (#[trigger] cache[i]).entry.name() == n by {
        assert(forall|i: int| 0 <= i < l0.len() ==> (#[trigger] l0[i]).is_some());
        assert(l0.contains(Some(n)));
        let j = choose|j: int| 0 <= j < l0.len() && l0[j] == Some(n);
        assert(l0[j].is_some());
    }
}

pub open spec fn records_ok(cache: Seq<CachedFile>, w: World, dir: PathV) -> bool {
    &&& forall|i: int| 0 <= i < cache.len() ==> record_ok(#[trigger] cache[i], w, dir)
    &&& forall|i: int, j: int| 0 <= i < j < cache.len() ==> (#[trigger] cache[i]).entry.name() != (#[trigger] cache[j]).entry.name()
}
''')

    cf = u.under_contract(u.item('src/raw_cache.rs', ['fn collect_cached_files']), ['C07', 'C17', 'C05', 'C06', 'C18', 'C15', 'C02', 'C16'])
    cf.air = 'raw_cache::collect_cached_files'
    cf.add_param(W)
    cf.add_arg('std :: fs :: read_dir', TW)
    cf.add_arg('entry . metadata', TW)
    cf.desugar_for(0, next_args=TW,
                   after_init='let ghost l0 = kw_it.rem(); let ghost mut k: int = 0; let ghost dir = pv(cache_dir);',
                   after_next='proof { k = k + 1; assert(l0.skip(k - 1)[0] == l0[k - 1]); assert(l0.skip(k - 1).drop_first() == l0.skip(k)); '
                              'if l0[k - 1].is_some() { assert(single_component(l0[k - 1].unwrap())); } } ',
                   after_loop='proof { if w.hard_faults == old(w).hard_faults { assert(kw_it.rem().len() == 0); assert(k == l0.len()); '
                              'lemma_listing_complete(cache@, l0, *old(w), dir); } }')
    cf.loop_contract(0, invariant=[
        ('', 'w.inv() && w.kept(*old(w)) && w.same_fs(*old(w)) && w.published == old(w).published && w.now == old(w).now'),
        ('', 'dir == pv(cache_dir) && kw_it.dir() == dir && listing_of(l0, *old(w), dir) && l0.len() < u64::MAX'),
        ('C07:scan-position', '0 <= k <= l0.len() && kw_it.rem() == l0.skip(k) && cache@.len() <= count <= k'),
        ('C06:two-calls-per-directory-item', 'w.listed == old(w).listed + k && w.steps <= old(w).steps + 2 * (2 + 2 * k) && w.opens == old(w).opens + 1'),
        ('C07 C17 C16:every-record-is-a-listed-regular-file-with-its-times', 'records_ok(cache@, *old(w), dir)'),
        ('C07:records-come-from-the-scanned-prefix', 'from_prefix(cache@, l0, k)'),
        ('C07:scanned-prefix-is-complete-when-nothing-failed',
         'w.hard_faults == old(w).hard_faults ==> prefix_complete(cache@, l0, k, *old(w), dir)'),
    ], invariant_except_break=[('C06:two-calls-per-directory-item', 'w.steps <= old(w).steps + 2 * (1 + 2 * k)')],
        ensures=[('', 'kw_it.rem().len() == 0')], decreases='kw_it.rem().len()')
    # proof steps at the four ways an item is disposed of
    if cf._find('continue', count=True):   # the arm that skips an entry which vanished between readdir and stat
        cf.insert_before('continue', '{ proof { lemma_skip_item(cache@, l0, k, *old(w), dir, w.hard_faults == old(w).hard_faults); } ', nth=0)
        cf.insert_after('continue', ' }', nth=0)
    cf.insert_after('count -= 1 ;', '\n                proof { lemma_skip_item(cache@, l0, k, *old(w), dir, w.hard_faults == old(w).hard_faults); }')
    cf.insert_before('cache . push', 'let ghost c0 = cache@;\n                ')
    cf.insert_after('if let Ok ( entry ) = maybe_entry {', '\n            proof { assert(entry.name() == l0[k - 1].unwrap() && entry.dir() == dir); }')
    cf.insert_after_stmt('let is_dotfile =', '\n            proof { assert(is_dotfile == (entry.name()[0] == 0x2e)); }')
    cf.insert_after_stmt('cache . push (',
                    '\n                proof { lemma_push_record(c0, cache@.last(), l0, k, *old(w), dir, w.hard_faults == old(w).hard_faults); '
                    'assert(cache@ == c0.push(cache@.last())); }')
    # an unreadable item (`if let Ok(entry)` not taken) is a hard fault: completeness is no longer claimed
    cf.contract(
        requires=[('', 'old(w).inv()')],
        ensures=[
            INV, BOOK,
            ('C15 C07:listing-changes-nothing', 'final(w).same_fs(*old(w)) && final(w).published == old(w).published && final(w).now == old(w).now'),
            ('C06:two-calls-per-directory-item', 'final(w).steps <= old(w).steps + 2 * (2 + 2 * (final(w).listed - old(w).listed)) && final(w).opens == old(w).opens + 1 && (r.is_ok() ==> r.unwrap().0@.len() <= final(w).listed - old(w).listed)'),
            ('C07 C17 C16:every-record-is-a-listed-regular-file-with-its-times',
             'r.is_ok() ==> records_ok(r.unwrap().0@, *old(w), pv(cache_dir)) && r.unwrap().1 >= r.unwrap().0@.len()'),
            ('C07:listing-is-complete-when-nothing-failed',
             'r.is_ok() && final(w).hard_faults == old(w).hard_faults ==> all_files_recorded(r.unwrap().0@, *old(w), pv(cache_dir))'),
            ('C05 C18 C06:error-is-a-missing-directory-or-a-real-fault',
             'r.is_err() ==> final(w).hard_faults > old(w).hard_faults || (absent_err(err_of(r)) && !old(w).dirs.contains(pv(cache_dir)))'),
        ])

    u.text('''
pub open spec fn rpath(c: CachedFile) -> PathV {
    child(c.entry.dir(), c.entry.name())
}

/// C17: the only files a plan may name are regular files directly inside `dir`, outside the dot namespace.
pub open spec fn evictable_records(s: Seq<CachedFile>, dir: PathV) -> bool {
    forall|i: int| 0 <= i < s.len() ==> (#[trigger] s[i]).entry.dir() == dir && single_component(s[i].entry.name()) && s[i].entry.name()[0] != 0x2e
}

/// A reprieve: same file, new queue position at the back (not before the run started), read mark cleared.
pub open spec fn restamped(a: Inode, b: Inode, old: World, fin: World) -> bool {
    &&& b == (Inode { mtime: b.mtime, atime: b.atime, ..a })
    &&& b.atime < b.mtime
    &&& trunc(old.now, old.gran) <= b.mtime <= trunc(fin.now, old.gran)
}

/// What maintenance may change, on every exit (C07 C17 C02): nothing is created or re-bound, only plan
/// victims disappear, only reprieved files are re-stamped, directories are untouched.
pub open spec fn maint_frame(old: World, fin: World, ev: Seq<CachedFile>, mb: Seq<CachedFile>) -> bool {
    &&& fin.dirs == old.dirs
    &&& forall|p: PathV| #[trigger] fin.files.contains_key(p) ==> old.files.contains_key(p) && fin.files[p] == old.files[p]
    &&& forall|p: PathV| old.files.contains_key(p) && !(#[trigger] fin.files.contains_key(p)) ==> exists|i: int| 0 <= i < ev.len() && rpath(#[trigger] ev[i]) == p
    &&& forall|ino: InodeId| #[trigger] old.inodes.contains_key(ino) ==> fin.inodes.contains_key(ino) && (fin.inodes[ino] == old.inodes[ino] || exists|i: int|
        0 <= i < mb.len() && old.files.contains_key(rpath(#[trigger] mb[i])) && old.files[rpath(mb[i])] == ino && restamped(old.inodes[ino], fin.inodes[ino], old, fin))
}

/// What a completed, fault-free maintenance has achieved: every victim is gone, every reprieved file
/// that is still there sits at the back of the queue with its read mark cleared.
pub open spec fn maint_done(old: World, fin: World, ev: Seq<CachedFile>, mb: Seq<CachedFile>) -> bool {
    &&& forall|i: int| 0 <= i < ev.len() ==> !fin.files.contains_key(rpath(#[trigger] ev[i]))
    &&& forall|i: int| 0 <= i < mb.len() && fin.files.contains_key(rpath(#[trigger] mb[i])) ==> restamped(old.inode_at(rpath(mb[i])), fin.inode_at(rpath(mb[i])), old, fin)
}

pub proof fn lemma_frame_refl(w: World, ev: Seq<CachedFile>, mb: Seq<CachedFile>)
    ensures
        maint_frame(w, w, ev, mb),
{
}

pub proof fn lemma_restamped_later(a: Inode, b: Inode, old: World, f1: World, f2: World)
    requires
        restamped(a, b, old, f1),
        f1.now <= f2.now,
        old.gran >= 1,
    ensures
        restamped(a, b, old, f2),
{
    lemma_trunc_monotone(f1.now, f2.now, old.gran);
}

/// A step that leaves the filesystem alone (a failed call) keeps the frame.
pub proof fn lemma_frame_same_fs(old: World, a: World, b: World, ev: Seq<CachedFile>, mb: Seq<CachedFile>)
    requires
        maint_frame(old, a, ev, mb),
        b.same_fs(a),
        a.now <= b.now,
        old.gran >= 1,
    ensures
        maint_frame(old, b, ev, mb),
{
    assert forall|ino: InodeId| #[trigger] old.inodes.contains_key(ino) implies b.inodes.contains_key(ino) && (b.inodes[ino] == old.inodes[ino] || exists|i: int|
        0 <= i < mb.len() && old.files.contains_key(rpath(#[trigger] mb[i])) && old.files[rpath(mb[i])] == ino && restamped(old.inodes[ino], b.inodes[ino], old, b)) by {
        if b.inodes[ino] != old.inodes[ino] {
            let i = choose|i: int| 0 <= i < mb.len() && old.files.contains_key(rpath(#[trigger] mb[i])) && old.files[rpath(mb[i])] == ino && restamped(old.inodes[ino], a.inodes[ino], old, a);
            lemma_restamped_later(old.inodes[ino], a.inodes[ino], old, a, b);
        }
    }
}

/// Unlinking a plan victim keeps the frame.
pub proof fn lemma_frame_unlink(old: World, a: World, b: World, ev: Seq<CachedFile>, mb: Seq<CachedFile>, k: int)
    requires
        maint_frame(old, a, ev, mb),
        0 <= k < ev.len(),
        b.files == a.files.remove(rpath(ev[k])),
        b.dirs == a.dirs,
        b.inodes == a.inodes,
        a.now <= b.now,
        old.gran >= 1,
    ensures
        maint_frame(old, b, ev, mb),
{
    assert forall|p: PathV| old.files.contains_key(p) && !(#[trigger] b.files.contains_key(p)) implies exists|i: int| 0 <= i < ev.len() && rpath(#[trigger] ev[i]) == p by {
        if a.files.contains_key(p) {
            assert(p == rpath(ev[k]));
        }
    }
    assert forall|ino: InodeId| #[trigger] old.inodes.contains_key(ino) implies b.inodes.contains_key(ino) && (b.inodes[ino] == old.inodes[ino] || exists|i: int|
        0 <= i < mb.len() && old.files.contains_key(rpath(#[trigger] mb[i])) && old.files[rpath(mb[i])] == ino && restamped(old.inodes[ino], b.inodes[ino], old, b)) by {
        if b.inodes[ino] != old.inodes[ino] {
            let i = choose|i: int| 0 <= i < mb.len() && old.files.contains_key(rpath(#[trigger] mb[i])) && old.files[rpath(mb[i])] == ino && restamped(old.inodes[ino], a.inodes[ino], old, a);
            lemma_restamped_later(old.inodes[ino], a.inodes[ino], old, a, b);
        }
    }
}

/// Re-stamping a reprieved file keeps the frame, and that file is now `restamped`.
pub proof fn lemma_frame_restamp(old: World, a: World, b: World, ev: Seq<CachedFile>, mb: Seq<CachedFile>, k: int)
    requires
        maint_frame(old, a, ev, mb),
        0 <= k < mb.len(),
        a.files.contains_key(rpath(mb[k])),
        old.env_ok(),
        b.only_inode_changed(a, a.files[rpath(mb[k])], stamped(a.inode_at(rpath(mb[k])), b.now, old.gran)),
        old.now <= a.now <= b.now,
        1 <= old.gran <= 2 * ns_per_sec(),
    ensures
        maint_frame(old, b, ev, mb),
        restamped(old.inode_at(rpath(mb[k])), b.inode_at(rpath(mb[k])), old, b),
{
    let p = rpath(mb[k]);
    let x = a.files[p];
    assert(old.files.contains_key(p) && old.files[p] == x);
    lemma_stamped_unread(a.inodes[x], b.now, old.gran);
    lemma_trunc_monotone(old.now, b.now, old.gran);
    assert(b.inodes[x] == stamped(a.inodes[x], b.now, old.gran));
    if a.inodes[x] != old.inodes[x] {
        let i = choose|i: int| 0 <= i < mb.len() && old.files.contains_key(rpath(#[trigger] mb[i])) && old.files[rpath(mb[i])] == x && restamped(old.inodes[x], a.inodes[x], old, a);
    }
    assert(restamped(old.inodes[x], b.inodes[x], old, b));
    assert forall|ino: InodeId| #[trigger] old.inodes.contains_key(ino) implies b.inodes.contains_key(ino) && (b.inodes[ino] == old.inodes[ino] || exists|i: int|
        0 <= i < mb.len() && old.files.contains_key(rpath(#[trigger] mb[i])) && old.files[rpath(mb[i])] == ino && restamped(old.inodes[ino], b.inodes[ino], old, b)) by {
        if ino == x {
            assert(old.files.contains_key(rpath(mb[k])) && old.files[rpath(mb[k])] == ino);
        } else if b.inodes[ino] != old.inodes[ino] {
            assert(b.inodes[ino] == a.inodes[ino]);
            let i = choose|i: int| 0 <= i < mb.len() && old.files.contains_key(rpath(#[trigger] mb[i])) && old.files[rpath(mb[i])] == ino && restamped(old.inodes[ino], a.inodes[ino], old, a);
            lemma_restamped_later(old.inodes[ino], a.inodes[ino], old, a, b);
        }
    }
}

/// The first n reprieved entries that are still present have been re-stamped.
pub open spec fn prefix_restamped(old: World, fin: World, mb: Seq<CachedFile>, n: int) -> bool {
    forall|i: int| 0 <= i < n && fin.files.contains_key(rpath(#[trigger] mb[i])) ==> restamped(old.inode_at(rpath(mb[i])), fin.inode_at(rpath(mb[i])), old, fin)
}

/// Entries re-stamped earlier stay `restamped` after a later step that only re-stamps (or leaves alone).
pub proof fn lemma_restamped_prefix(old: World, a: World, b: World, mb: Seq<CachedFile>, n: int, x: InodeId, complete: bool)
    requires
        0 <= n <= mb.len(),
        complete ==> prefix_restamped(old, a, mb, n),
        b.files == a.files,
        forall|ino: InodeId| ino != x ==> #[trigger] b.inodes[ino] == a.inodes[ino],
        forall|p: PathV| #[trigger] a.files.contains_key(p) ==> old.files.contains_key(p) && a.files[p] == old.files[p],
        restamped(old.inodes[x], b.inodes[x], old, b) || b.inodes[x] == a.inodes[x],
        a.now <= b.now,
        old.gran >= 1,
    ensures
        complete ==> forall|i: int| 0 <= i < n && b.files.contains_key(rpath(#[trigger] mb[i])) ==> restamped(old.inode_at(rpath(mb[i])), b.inode_at(rpath(mb[i])), old, b),
{
    if !complete {
        return ;
    }
    assert forall|i: int| 0 <= i < n && b.files.contains_key(rpath(#[trigger] mb[i])) implies restamped(old.inode_at(rpath(mb[i])), b.inode_at(rpath(mb[i])), old, b) by {
        let p = rpath(mb[i]);
        assert(a.files.contains_key(p));
        let ino = a.files[p];
        assert(old.files[p] == ino);
        if ino == x && b.inodes[x] != a.inodes[x] {
        } else {
            lemma_restamped_later(old.inodes[ino], a.inodes[ino], old, a, b);
        }
    }
}
''')

    au = u.under_contract(u.item('src/raw_cache.rs', ['fn apply_update']), ['C07', 'C17', 'C02', 'C05', 'C06', 'C09', 'C18', 'C15', 'C16'])
    au.air = 'raw_cache::apply_update'
    au.add_param(W)
    au.add_arg('ensure_file_removed', TW)
    au.add_arg('move_to_back_of_list', TW)
    au.contract(
        requires=[('', 'old(w).inv()'),
                  ('C17 C16 C15:plan-names-only-evictable-files-of-a-configured-cache-directory',
                   'old(w).cache_dirs.contains(pbv(parent)) && (forall|n: Seq<u8>| !old(w).under_ro(#[trigger] child(pbv(parent), n))) '
                   '&& evictable_records(update.to_evict@, pbv(parent)) && evictable_records(update.to_move_back@, pbv(parent))')],
        ensures=[
            INV, BOOK,
            ('C07 C17 C02 C16:maintenance-frame-on-every-exit', 'maint_frame(*old(w), *final(w), update.to_evict@, update.to_move_back@)'),
            ('C07:plan-fully-applied', 'r.is_ok() && final(w).hard_faults == old(w).hard_faults ==> maint_done(*old(w), *final(w), update.to_evict@, update.to_move_back@)'),
            ('C06:linear-number-of-filesystem-calls', 'final(w).steps <= old(w).steps + 2 * (update.to_evict@.len() + update.to_move_back@.len()) && final(w).opens == old(w).opens && final(w).published == old(w).published && final(w).listed == old(w).listed'),
            ('C05 C18 C06:error-is-a-real-fault', 'r.is_err() ==> final(w).hard_faults > old(w).hard_faults'),
        ])
    au.body_start('broadcast use group_asref;\n    let ghost dir = pbv(parent);\n    let ghost ev = update.to_evict@;\n    let ghost mb = update.to_move_back@;')
    # T3 (Rust Reference definition of `for`): both loops are desugared so that a `continue` inside them stays
    # within Verus' reach; the iterator is the Vec's own IntoIter, specified by vstd's prophetic iterator laws.
    au.desugar_for(0, itvar='kw_it1', into_iter=True,
                   after_init='let ghost mut k1: int = 0;', after_next='proof { k1 = k1 + 1; } ')
    au.loop_contract(0, invariant=[
        ('C07 C17 C16 C18:the-scratch-path-names-the-directory-again-after-every-item', 'pbv(cached) == dir'),
        ('', 'old(w).inv() && w.inv() && w.kept(*old(w)) && w.cache_dirs.contains(dir) && ev == update.to_evict@ && mb == update.to_move_back@'),
        ('', '0 <= k1 <= ev.len() && vstd::std_specs::iter::IteratorSpec::remaining(&kw_it1) == ev.skip(k1) && vstd::std_specs::iter::IteratorSpec::obeys_prophetic_iter_laws(&kw_it1)'),
        ('', '(forall|n: Seq<u8>| !w.under_ro(#[trigger] child(dir, n))) && evictable_records(ev, dir) && evictable_records(mb, dir)'),
        ('C07 C17 C02 C16:maintenance-frame-on-every-exit', 'maint_frame(*old(w), *w, ev, mb) && w.inodes == old(w).inodes && w.now == old(w).now'),
        ('C07:victims-so-far-are-gone', 'w.hard_faults == old(w).hard_faults ==> forall|i: int| 0 <= i < k1 ==> !w.files.contains_key(rpath(#[trigger] ev[i]))'),
        ('C06:linear-number-of-filesystem-calls', 'w.steps <= old(w).steps + 2 * (k1) && w.opens == old(w).opens && w.published == old(w).published && w.listed == old(w).listed'),
    ], ensures=[('', 'k1 == ev.len()')], decreases='ev.len() - k1')
    au.insert_before('cached . push', 'broadcast use group_asref;\n        proof { lemma_child(dir, entry.entry.name()); }\n        ', nth=0)
    au.insert_before('cached . push', 'broadcast use group_asref;\n        proof { lemma_child(dir, entry.entry.name()); }\n        ', nth=1)
    au.insert_before('ensure_file_removed ( & cached ) ? ;',
                     'let ghost wa = *w;\n        proof {\n'
                     '            assert(rpath(ev[k1 - 1]) == pbv(cached));\n'
                     '            assert forall|fin: World| (#[trigger] fin.same_fs(wa) || (fin.files == wa.files.remove(pbv(cached)) && fin.dirs == wa.dirs && fin.inodes == wa.inodes)) && fin.kept(wa) '
                     'implies maint_frame(*old(w), fin, ev, mb) by {\n'
                     '                if fin.same_fs(wa) { lemma_frame_same_fs(*old(w), wa, fin, ev, mb); } else { lemma_frame_unlink(*old(w), wa, fin, ev, mb, k1 - 1); }\n'
                     '            }\n        }\n        ', nth=0)
    au.insert_before('for entry in update . to_move_back', 'let ghost w1 = *w;\n    ')
    au.desugar_for(1, itvar='kw_it2', into_iter=True,
                   after_init='let ghost mut k2: int = 0;', after_next='proof { k2 = k2 + 1; } ')
    au.loop_contract(1, invariant=[
        ('C07 C17 C16 C18:the-scratch-path-names-the-directory-again-after-every-item', 'pbv(cached) == dir'),
        ('', 'old(w).inv() && w.inv() && w.kept(*old(w)) && w.cache_dirs.contains(dir) && ev == update.to_evict@ && mb == update.to_move_back@'),
        ('', '0 <= k2 <= mb.len() && vstd::std_specs::iter::IteratorSpec::remaining(&kw_it2) == mb.skip(k2) && vstd::std_specs::iter::IteratorSpec::obeys_prophetic_iter_laws(&kw_it2)'),
        ('', '(forall|n: Seq<u8>| !w.under_ro(#[trigger] child(dir, n))) && evictable_records(ev, dir) && evictable_records(mb, dir)'),
        ('C07 C17 C02 C16:maintenance-frame-on-every-exit', 'maint_frame(*old(w), *w, ev, mb) && w.files == w1.files'),
        ('C07:victims-so-far-are-gone', 'w.hard_faults == old(w).hard_faults ==> forall|i: int| 0 <= i < ev.len() ==> !w.files.contains_key(rpath(#[trigger] ev[i]))'),
        ('C07 C09:reprieved-so-far-are-restamped', 'w.hard_faults == old(w).hard_faults ==> prefix_restamped(*old(w), *w, mb, k2)'),
        ('C06:linear-number-of-filesystem-calls', 'w.steps <= old(w).steps + 2 * (ev.len() + k2) && w.opens == old(w).opens && w.published == old(w).published && w.listed == old(w).listed'),
    ], ensures=[('', 'k2 == mb.len()')], decreases='mb.len() - k2')
    au.insert_before('match move_to_back_of_list',
                     'let ghost wb = *w;\n        let ghost idx = k2 - 1;\n'
                     '        proof {\n'
                     '            let p = rpath(mb[idx]);\n'
                     '            assert(p == pbv(cached));\n'
                     '            assert(idx < mb.len());\n'
                     '            // whatever the call returns, the frame and the re-stamped prefix are re-established (no hint needed inside the arms)\n'
                     '            assert forall|fin: World| #[trigger] fin.same_fs(wb) && fin.kept(wb) implies maint_frame(*old(w), fin, ev, mb)\n'
                     '                && ((fin.hard_faults == old(w).hard_faults && !wb.files.contains_key(p)) ==> prefix_restamped(*old(w), fin, mb, idx + 1)) by {\n'
                     '                lemma_frame_same_fs(*old(w), wb, fin, ev, mb);\n'
                     '                if fin.hard_faults == old(w).hard_faults && !wb.files.contains_key(p) {\n'
                     '                    lemma_restamped_prefix(*old(w), wb, fin, mb, idx, 0, true);\n'
                     '                }\n'
                     '            }\n'
                     '            assert forall|fin: World| wb.files.contains_key(p) && fin.kept(wb)\n'
                     '                && #[trigger] fin.only_inode_changed(wb, wb.files[p], stamped(wb.inode_at(p), fin.now, wb.gran)) implies maint_frame(*old(w), fin, ev, mb)\n'
                     '                && (fin.hard_faults == old(w).hard_faults ==> prefix_restamped(*old(w), fin, mb, idx + 1)) by {\n'
                     '                lemma_frame_restamp(*old(w), wb, fin, ev, mb, idx);\n'
                     '                if fin.hard_faults == old(w).hard_faults {\n'
                     '                    lemma_restamped_prefix(*old(w), wb, fin, mb, idx, wb.files[p], true);\n'
                     '                }\n'
                     '            }\n'
                     '        }\n        ')

    u.text('''
/// C17/C07/C02 on every exit of `prune`, without naming the plan: directories untouched, nothing created or
/// re-bound, whatever disappeared or was re-stamped was a regular file directly inside `dir`, outside
/// the dot namespace.
pub open spec fn prune_frame(old: World, fin: World, dir: PathV) -> bool {
    &&& fin.dirs == old.dirs
    &&& forall|p: PathV| #[trigger] fin.files.contains_key(p) ==> old.files.contains_key(p) && fin.files[p] == old.files[p]
    &&& forall|p: PathV| old.files.contains_key(p) && !(#[trigger] fin.files.contains_key(p)) ==> old.in_cache_namespace(p) && parent(p) == dir
    &&& forall|ino: InodeId| #[trigger] old.inodes.contains_key(ino) ==> fin.inodes.contains_key(ino) && (fin.inodes[ino] == old.inodes[ino] || (restamped(
        old.inodes[ino],
        fin.inodes[ino],
        old,
        fin,
    ) && exists|p: PathV| #[trigger] old.files.contains_key(p) && old.files[p] == ino && old.in_cache_namespace(p) && parent(p) == dir))
}

pub proof fn lemma_prune_frame(old: World, fin: World, dir: PathV, ev: Seq<CachedFile>, mb: Seq<CachedFile>)
    requires
        maint_frame(old, fin, ev, mb),
        evictable_records(ev, dir),
        evictable_records(mb, dir),
        old.cache_dirs.contains(dir),
    ensures
        prune_frame(old, fin, dir),
{
    assert forall|p: PathV| old.files.contains_key(p) && !(#[trigger] fin.files.contains_key(p)) implies old.in_cache_namespace(p) && parent(p) == dir by {
        let i = choose|i: int| 0 <= i < ev.len() && rpath(#[trigger] ev[i]) == p;
        lemma_child(dir, ev[i].entry.name());
    }
    assert forall|ino: InodeId| #[trigger] old.inodes.contains_key(ino) implies fin.inodes.contains_key(ino) && (fin.inodes[ino] == old.inodes[ino] || (restamped(
        old.inodes[ino],
        fin.inodes[ino],
        old,
        fin,
    ) && exists|p: PathV| #[trigger] old.files.contains_key(p) && old.files[p] == ino && old.in_cache_namespace(p) && parent(p) == dir)) by {
        if fin.inodes[ino] != old.inodes[ino] {
            let i = choose|i: int| 0 <= i < mb.len() && old.files.contains_key(rpath(#[trigger] mb[i])) && old.files[rpath(mb[i])] == ino && restamped(old.inodes[ino], fin.inodes[ino], old, fin);
            lemma_child(dir, mb[i].entry.name());
            assert(old.files.contains_key(rpath(mb[i])) && old.in_cache_namespace(rpath(mb[i])));
        }
    }
}

/// The frame only looks at the filesystem part, the clock and the granularity of its first argument.
pub proof fn lemma_frame_rebase(old: World, wc: World, fin: World, ev: Seq<CachedFile>, mb: Seq<CachedFile>)
    requires
        maint_frame(wc, fin, ev, mb),
        wc.same_fs(old),
        wc.now == old.now,
        wc.gran == old.gran,
    ensures
        maint_frame(old, fin, ev, mb),
{
    assert forall|ino: InodeId| #[trigger] old.inodes.contains_key(ino) implies fin.inodes.contains_key(ino) && (fin.inodes[ino] == old.inodes[ino] || exists|i: int|
        0 <= i < mb.len() && old.files.contains_key(rpath(#[trigger] mb[i])) && old.files[rpath(mb[i])] == ino && restamped(old.inodes[ino], fin.inodes[ino], old, fin)) by {
        if fin.inodes[ino] != old.inodes[ino] {
            let i = choose|i: int| 0 <= i < mb.len() && wc.files.contains_key(rpath(#[trigger] mb[i])) && wc.files[rpath(mb[i])] == ino && restamped(wc.inodes[ino], fin.inodes[ino], wc, fin);
            assert(restamped(old.inodes[ino], fin.inodes[ino], old, fin));
        }
    }
}

pub proof fn lemma_done_rebase(old: World, wc: World, fin: World, ev: Seq<CachedFile>, mb: Seq<CachedFile>)
    requires
        maint_done(wc, fin, ev, mb),
        wc.same_fs(old),
        wc.now == old.now,
        wc.gran == old.gran,
    ensures
        maint_done(old, fin, ev, mb),
{
    assert forall|i: int| 0 <= i < mb.len() && fin.files.contains_key(rpath(#[trigger] mb[i])) implies restamped(old.inode_at(rpath(mb[i])), fin.inode_at(rpath(mb[i])), old, fin) by {
        assert(restamped(wc.inode_at(rpath(mb[i])), fin.inode_at(rpath(mb[i])), wc, fin));
    }
}

/// Every element of a plan is one of the records it was computed from.
pub proof fn lemma_plan_subset(recs: Seq<CachedFile>, ev: Seq<CachedFile>, mb: Seq<CachedFile>, dir: PathV)
    requires
        ev.to_multiset().add(mb.to_multiset()).subset_of(recs.to_multiset()),
        evictable_records(recs, dir),
    ensures
        evictable_records(ev, dir),
        evictable_records(mb, dir),
{
    broadcast use vstd::seq_lib::group_to_multiset_ensures;
    assert forall|i: int| 0 <= i < ev.len() implies (#[trigger] ev[i]).entry.dir() == dir && single_component(ev[i].entry.name()) && ev[i].entry.name()[0] != 0x2e by {
        assert(ev.contains(ev[i]));
        assert(ev.to_multiset().count(ev[i]) > 0);
        assert(ev.to_multiset().add(mb.to_multiset()).count(ev[i]) > 0);
        assert(recs.to_multiset().count(ev[i]) > 0);
        assert(recs.contains(ev[i]));
        let j = choose|j: int| 0 <= j < recs.len() && recs[j] == ev[i];
    }
    assert forall|i: int| 0 <= i < mb.len() implies (#[trigger] mb[i]).entry.dir() == dir && single_component(mb[i].entry.name()) && mb[i].entry.name()[0] != 0x2e by {
        assert(mb.contains(mb[i]));
        assert(mb.to_multiset().count(mb[i]) > 0);
        assert(ev.to_multiset().add(mb.to_multiset()).count(mb[i]) > 0);
        assert(recs.to_multiset().count(mb[i]) > 0);
        assert(recs.contains(mb[i]));
        let j = choose|j: int| 0 <= j < recs.len() && recs[j] == mb[i];
    }
}

/// C07, the completed fault-free run: the plan is the Second Chance plan over the directory's regular files
/// (queue position = mtime, read mark = atime >= mtime), and it has been applied.
pub open spec fn prune_exact(old: World, fin: World, dir: PathV, cap: nat, recs: Seq<CachedFile>, ev: Seq<CachedFile>, mb: Seq<CachedFile>) -> bool {
    &&& records_ok(recs, old, dir)
    &&& all_files_recorded(recs, old, dir)
    &&& plan_is_second_chance(recs, cap, |e: CachedFile| e.spec_rank(), |e: CachedFile| e.spec_accessed(), ev, mb)
    &&& maint_frame(old, fin, ev, mb)
    &&& maint_done(old, fin, ev, mb)
}
''')

    pr = u.under_contract(u.item('src/raw_cache.rs', ['fn prune']), ['C07', 'C17', 'C02', 'C05', 'C06', 'C09', 'C18', 'C15', 'C10', 'C11', 'C16'])
    pr.air = 'raw_cache::prune'
    pr.add_param(W)
    pr.add_arg('collect_cached_files', TW)
    pr.add_arg('apply_update', TW)
    pr.contract(
        requires=[('', 'old(w).inv()'),
                  ('C15 C16:maintenance-runs-on-a-configured-read-write-cache-directory',
                   'old(w).cache_dirs.contains(pbv(cache_dir)) && (forall|n: Seq<u8>| !old(w).under_ro(#[trigger] child(pbv(cache_dir), n)))')],
        ensures=[
            INV, BOOK,
            ('C17 C07 C02 C16:only-evictable-files-of-this-directory-are-deleted-or-restamped', 'prune_frame(*old(w), *final(w), pbv(cache_dir))'),
            ('C07:exactly-the-second-chance-plan-is-applied',
             'r.is_ok() && final(w).hard_faults == old(w).hard_faults ==> exists|recs: Seq<CachedFile>, ev: Seq<CachedFile>, mb: Seq<CachedFile>| '
             '#[trigger] prune_exact(*old(w), *final(w), pbv(cache_dir), capacity as nat, recs, ev, mb) && r.unwrap().1 == ev.len() '
             '&& ev.len() == (if recs.len() <= capacity { 0 } else { recs.len() - capacity })'),
            ('C11 C07:nothing-disappears-without-a-directory-scan', 'final(w).listed == old(w).listed ==> forall|p: PathV| #[trigger] old(w).files.contains_key(p) ==> final(w).files.contains_key(p)'),
            ('C06:linear-in-the-number-of-directory-entries',
             'final(w).steps <= old(w).steps + 2 * (2 + 3 * (final(w).listed - old(w).listed)) && final(w).opens == old(w).opens + 1 && final(w).published == old(w).published'),
            ('C05 C18 C06:error-is-a-missing-directory-or-a-real-fault',
             'r.is_err() ==> final(w).hard_faults > old(w).hard_faults || (absent_err(err_of(r)) && !old(w).dirs.contains(pbv(cache_dir)) && final(w).same_fs(*old(w)))'),
        ])
    pr.insert_before(('let update =', 'let mut update ='), 'let ghost recs = cached_files@;\n    let ghost w1 = *w;\n    let ghost dir = pbv(cache_dir);\n    proof { assert(recs.len() == cached_files.len()); }\n    ')
    # (A) right after the planner: the plan is the Second Chance plan, hence made of evictable records of this directory
    pr.insert_before('let num_evicted =',
                     'let ghost ev0 = update.to_evict@;\n    let ghost mb0 = update.to_move_back@;\n'
                     '    proof {\n'
                     '        let key = |e: CachedFile| e.spec_rank();\n'
                     '        let acc = |e: CachedFile| e.spec_accessed();\n'
                     '        assert(plan_is_second_chance(recs, capacity as nat, key, acc, ev0, mb0));\n'
                     '        lemma_plan_facts(recs, capacity as nat, key, acc, ev0, mb0);\n'
                     '        assert(evictable_records(recs, dir));\n'
                     '        lemma_plan_subset(recs, ev0, mb0, dir);\n'
                     '    }\n    ')
    # (B) right before the plan is applied: the frame argument is about whatever is handed to apply_update at that point
    # (so that code which edits the plan in between fails the exactness clause, C07, and not the frame, C17 C02 C16)
    pr.insert_before(('apply_update ( cache_dir , update ) ?', 'apply_update ('),
                     'let ghost ev = update.to_evict@;\n    let ghost mb = update.to_move_back@;\n'
                     '    proof {\n'
                     '        assert(evictable_records(ev, dir));\n'
                     '        assert(evictable_records(mb, dir));\n'
                     '        lemma_frame_refl(*old(w), ev, mb);\n'
                     '        let wc = *w;\n'
                     '        assert forall|fin: World| #[trigger] maint_frame(wc, fin, ev, mb) implies prune_frame(*old(w), fin, dir) && maint_frame(*old(w), fin, ev, mb) by {\n'
                     '            lemma_frame_rebase(*old(w), wc, fin, ev, mb);\n'
                     '            lemma_prune_frame(*old(w), fin, dir, ev, mb);\n'
                     '        }\n'
                     '        assert forall|fin: World| #[trigger] maint_done(wc, fin, ev, mb) implies maint_done(*old(w), fin, ev, mb) by {\n'
                     '            lemma_done_rebase(*old(w), wc, fin, ev, mb);\n'
                     '        }\n'
                     '    }\n    ')
    pr.insert_before('Ok ( (',
                     'proof {\n'
                     '        if w.hard_faults == old(w).hard_faults {\n'
                     '            assert(prune_exact(*old(w), *w, dir, capacity as nat, recs, ev, mb));\n'
                     '        }\n'
                     '    }\n    ', nth=-1)
    u.text('}\n')


def weave_cache_dir_head(u):
    """validate_file_name, ensure_directory and the CacheDir trait's lookups."""
    u.text('pub mod cache_dir {\n' + MOD_HEAD + 'use crate::benign_error::is_absent_file_error;\nuse crate::raw_cache;\n'
           'use crate::trigger::PeriodicTrigger;\nuse crate::std::fs::File;\nuse crate::std::fs::DirEntry;\nuse crate::std::time::Duration;\n')
    INV = ('C02 C18:valid-on-every-exit', 'final(w).inv()')
    BOOK = ('', 'final(w).kept(*old(w)) && final(w).listed == old(w).listed')

    f = u.under_contract(u.item('src/cache_dir.rs', ['fn validate_file_name']), ['C16', 'C11'])
    f.air = 'cache_dir::validate_file_name'
    f.replace('Error :: new', 'io_error_new', 'T2-rebind')
    f.contract(ensures=[
        ('C16:reserved-or-empty-names-are-rejected-with-invalid-input',
         '!first_byte_ok(str_bytes(name)) ==> r.is_err() && err_kind(err_of(r)) == ErrorKind::InvalidInput'),
        ('C16:accepted-names-are-single-components-outside-the-dot-namespace',
         'r.is_ok() ==> r.unwrap() == name && valid_key(str_bytes(name))'),
        ('C16:only-invalid-input-is-ever-reported', 'r.is_err() ==> err_kind(err_of(r)) == ErrorKind::InvalidInput'),
        ('C11:names-the-documentation-allows-are-accepted', 'first_byte_ok(str_bytes(name)) && !str_bytes(name).contains(0x2fu8) && !str_bytes(name).contains(0u8) ==> r.is_ok()'),
    ])
    f.body_start('proof { if first_byte_ok(str_bytes(name)) && !str_bytes(name).contains(0x2fu8) { lemma_valid_key(str_bytes(name)); } }')

    f = u.under_contract(u.item('src/cache_dir.rs', ['fn ensure_directory']), ['C02', 'C15', 'C16', 'C18', 'C06'])
    f.air = 'cache_dir::ensure_directory'
    f.add_param(W)
    f.add_arg('std :: fs :: metadata', TW)
    f.add_arg('std :: fs :: create_dir_all', TW)
    f.contract(
        requires=[('', 'old(w).inv()'), ('C02 C15 C16:only-cache-directories-are-created', 'old(w).may_mkdir(pv(path))')],
        ensures=[INV, BOOK,
                 ('C06 C20:at-most-two-filesystem-calls', 'final(w).steps <= old(w).steps + 2 * (2) && final(w).opens == old(w).opens && final(w).published == old(w).published'),
                 ('C02:directory-exists-afterwards', 'r.is_ok() ==> final(w).dirs.contains(pv(path))'),
                 ('C02 C15:only-directories-on-the-way-are-created',
                  'final(w).files == old(w).files && final(w).inodes == old(w).inodes '
                  '&& (forall|d: PathV| #[trigger] old(w).dirs.contains(d) ==> final(w).dirs.contains(d)) '
                  '&& (forall|d: PathV| #[trigger] final(w).dirs.contains(d) ==> old(w).dirs.contains(d) || d.is_prefix_of(pv(path)))'),
                 ('C18:error-is-a-real-fault', 'r.is_err() ==> final(w).hard_faults > old(w).hard_faults')])

    # ---- MAX_TEMP_FILE_AGE and cleanup_temporary_directory ---------------------------------
    from weave import Repl
    c = u.item('src/cache_dir.rs', ['const MAX_TEMP_FILE_AGE'])
    c.drop_attrs()     # #[cfg(not(test))]: the extractor already selected the non-test definition
    c.insert_before_tok(c.item.lo, 'exec ')
    eq, _ = c._find('=', 0)
    c.repls.append(Repl(c.ct[eq][2], c.ct[eq][3], '\n    ensures MAX_TEMP_FILE_AGE.secs == 3600   // @L C17 C02:temporary-file-age-limit-is-one-hour\n{', 'T8-const-block'))
    c.repls.append(Repl(c.ct[c.hi][2], c.ct[c.hi][3], '}', 'T8-const-block'))
    u.text('''
/// The age limit in ns (one hour: proved from the crate's own constant above).
pub open spec fn temp_age_ns() -> int {
    3600 * ns_per_sec()
}

/// What cleaning `.kismet_temp` may change, on every exit (C17 C02): only files directly inside `tdir`
/// disappear, and only those last modified strictly more than the age limit before this run's clock reading.
pub open spec fn temp_frame(old: World, fin: World, tdir: PathV, reading: int) -> bool {
    &&& fin.dirs == old.dirs
    &&& fin.inodes == old.inodes
    &&& forall|p: PathV| #[trigger] fin.files.contains_key(p) ==> old.files.contains_key(p) && fin.files[p] == old.files[p]
    &&& forall|p: PathV| old.files.contains_key(p) && !(#[trigger] fin.files.contains_key(p)) ==> p.len() > 0 && parent(p) == tdir && old.inode_at(p).mtime + temp_age_ns() < reading
}

/// C02 (completeness of cleanup): the first `c` listed items were readable, and none of them is still a stale file.
pub open spec fn temp_done(l: Seq<Option<Seq<u8>>>, c: int, w: World, tdir: PathV, reading: int) -> bool {
    forall|i: int| 0 <= i < c ==> (#[trigger] l[i]).is_some() && (w.files.contains_key(child(tdir, l[i].unwrap())) ==> w.inode_at(child(tdir, l[i].unwrap())).mtime
        + temp_age_ns() >= reading)
}

/// No file directly inside `tdir` is older than the age limit at clock reading `reading`.
pub open spec fn no_stale_temp(w: World, tdir: PathV, reading: int) -> bool {
    forall|n: Seq<u8>| #[trigger] w.files.contains_key(child(tdir, n)) ==> w.inode_at(child(tdir, n)).mtime + temp_age_ns() >= reading
}

/// A complete, fully readable listing all of whose items have been dealt with leaves no stale file behind.
pub proof fn lemma_temp_complete(l: Seq<Option<Seq<u8>>>, wl: World, w: World, tdir: PathV, reading: int)
    requires
        listing_of(l, wl, tdir),
        temp_done(l, l.len() as int, w, tdir, reading),
        forall|p: PathV| #[trigger] w.files.contains_key(p) ==> wl.files.contains_key(p),
    ensures
        no_stale_temp(w, tdir, reading),
{
    assert forall|n: Seq<u8>| #[trigger] w.files.contains_key(child(tdir, n)) implies w.inode_at(child(tdir, n)).mtime + temp_age_ns() >= reading by {
        assert(wl.files.contains_key(child(tdir, n)));
        assert(forall|i: int| 0 <= i < l.len() ==> (#[trigger] l[i]).is_some());
        assert(l.contains(Some(n)));
        let i = choose|i: int| 0 <= i < l.len() && l[i] == Some(n);
        assert(l[i].is_some());
    }
}

pub proof fn lemma_temp_frame_step(old: World, a: World, b: World, tdir: PathV, reading: int, n: Seq<u8>)
    requires
        temp_frame(old, a, tdir, reading),
        b.dirs == a.dirs,
        b.inodes == a.inodes,
        b.files == a.files || (b.files == a.files.remove(child(tdir, n)) && a.files.contains_key(child(tdir, n)) && a.inode_at(child(tdir, n)).mtime + temp_age_ns() < reading),
    ensures
        temp_frame(old, b, tdir, reading),
{
    lemma_child(tdir, n);
    assert forall|p: PathV| old.files.contains_key(p) && !(#[trigger] b.files.contains_key(p)) implies p.len() > 0 && parent(p) == tdir && old.inode_at(p).mtime + temp_age_ns() < reading by {
        if a.files.contains_key(p) {
            assert(p == child(tdir, n));
            assert(a.files[p] == old.files[p]);
        }
    }
}

pub open spec fn is_temp_dir_of(w: World, tdir: PathV) -> bool {
    &&& tdir.len() > 0
    &&& base_name(tdir) == temp_name()
    &&& w.cache_dirs.contains(parent(tdir))
    &&& forall|n: Seq<u8>| !w.under_ro(#[trigger] child(tdir, n))
}
''')
    u.text('''
/// What one maintenance run of the cache directory `base` (prune, then temp cleanup) may change, on every exit.
pub open spec fn cleanup_frame(old: World, fin: World, base: PathV) -> bool {
    &&& fin.dirs == old.dirs
    &&& fin.published == old.published
    &&& forall|p: PathV| #[trigger] fin.files.contains_key(p) ==> old.files.contains_key(p) && fin.files[p] == old.files[p]
    &&& forall|p: PathV| old.files.contains_key(p) && !(#[trigger] fin.files.contains_key(p)) ==> (old.in_cache_namespace(p) && parent(p) == base) || (p.len() > 0
        && parent(p) == child(base, temp_name()) && old.inode_at(p).mtime + temp_age_ns() < fin.now)
    &&& forall|ino: InodeId| #[trigger] old.inodes.contains_key(ino) ==> fin.inodes.contains_key(ino) && (fin.inodes[ino] == old.inodes[ino] || (
    raw_cache::restamped(old.inodes[ino], fin.inodes[ino], old, fin) && exists|p: PathV|
        #[trigger] old.files.contains_key(p) && old.files[p] == ino && old.in_cache_namespace(p) && parent(p) == base))
}

pub proof fn lemma_cleanup_frame_same(w: World, base: PathV)
    requires
        w.env_ok(),
    ensures
        forall|fin: World| #[trigger] fin.same_fs(w) && fin.published == w.published ==> cleanup_frame(w, fin, base),
        forall|fin: World| #[trigger] raw_cache::prune_frame(w, fin, base) && fin.published == w.published ==> cleanup_frame(w, fin, base),
{
}

pub proof fn lemma_cleanup_compose(old: World, m: World, fin: World, base: PathV)
    requires
        old.env_ok(),
        raw_cache::prune_frame(old, m, base),
        temp_frame(m, fin, child(base, temp_name()), fin.now),
        m.kept(old),
        fin.kept(m),
        m.published == old.published,
        fin.published == m.published,
    ensures
        cleanup_frame(old, fin, base),
{
    assert forall|p: PathV| old.files.contains_key(p) && !(#[trigger] fin.files.contains_key(p)) implies (old.in_cache_namespace(p) && parent(p) == base) || (p.len() > 0
        && parent(p) == child(base, temp_name()) && old.inode_at(p).mtime + temp_age_ns() < fin.now) by {
        if m.files.contains_key(p) {
            let ino = old.files[p];
            assert(m.files[p] == ino);
            assert(old.inodes.contains_key(ino));
            if m.inodes[ino] != old.inodes[ino] {
                assert(raw_cache::restamped(old.inodes[ino], m.inodes[ino], old, m));
                assert(old.inodes[ino].mtime <= trunc(old.now, old.gran));
            }
        }
    }
    assert forall|ino: InodeId| #[trigger] old.inodes.contains_key(ino) implies fin.inodes.contains_key(ino) && (fin.inodes[ino] == old.inodes[ino] || (
    raw_cache::restamped(old.inodes[ino], fin.inodes[ino], old, fin) && exists|p: PathV|
        #[trigger] old.files.contains_key(p) && old.files[p] == ino && old.in_cache_namespace(p) && parent(p) == base)) by {
        if m.inodes[ino] != old.inodes[ino] {
            raw_cache::lemma_restamped_later(old.inodes[ino], m.inodes[ino], old, m, fin);
        }
    }
}

/// What the caller of set/put hands in: a private path (never a cache entry itself) whose file, if it
/// exists, holds the bytes supplied for this key and is already flushed when auto_sync demands it.
pub open spec fn value_ready(w: World, value: PathV, base: PathV, name: Seq<u8>) -> bool {
    &&& w.owned.contains(value) && !w.in_cache_namespace(value) && !w.under_ro(value)
    &&& !w.dirs.contains(child(base, name))
    &&& value != child(base, name)
    &&& w.files.contains_key(value) ==> {
        &&& w.supplied.contains((name, w.inode_at(value).content))
        &&& (w.must_sync ==> w.inode_at(value).synced)
        &&& !w.inode_at(value).flush_failed
        &&& forall|q: PathV| #[trigger] w.files.contains_key(q) && w.files[q] == w.files[value] ==> !w.in_cache_namespace(q)
    }
}

/// The generic hand-over condition implies the directory-level one for any configured cache directory.
pub proof fn lemma_value_ready(w: World, value: PathV, base: PathV, name: Seq<u8>)
    requires
        w.env_ok(),
        w.value_ok(value, name, w.must_sync),
        valid_key(name),
        w.cache_dirs.contains(base),
    ensures
        value_ready(w, value, base, name),
{
    lemma_child(base, name);
    assert(w.in_cache_namespace(child(base, name)));
}

pub proof fn lemma_ready_after_cleanup(old: World, m: World, value: PathV, base: PathV, name: Seq<u8>)
    requires
        old.inv(),
        m.kept_nc(old),
        cleanup_frame(old, m, base),
        value_ready(old, value, base, name),
        valid_key(name),
        old.cache_dirs.contains(base),
        !old.under_ro(child(base, name)),
    ensures
        raw_cache::source_ready(m, value, child(base, name)),
{
    lemma_child(base, name);
    if m.files.contains_key(value) {
        let ino = old.files[value];
        assert(m.files[value] == ino);
        assert(old.inodes.contains_key(ino));
        if m.inodes[ino] != old.inodes[ino] {
            let p = choose|p: PathV| #[trigger] old.files.contains_key(p) && old.files[p] == ino && old.in_cache_namespace(p) && parent(p) == base;
            assert(false);
        }
    }
}

/// After a failed first attempt and `create_dir_all(parent)`, the second attempt's precondition still holds.
pub proof fn lemma_ready_after_retry(wm: World, w1: World, w2: World, value: PathV, base: PathV, name: Seq<u8>)
    requires
        raw_cache::source_ready(wm, value, child(base, name)),
        raw_cache::attempt_effect(wm, w1, value, child(base, name)),
        w1.kept(wm),
        w2.kept(w1),
        w2.files == w1.files,
        w2.inodes == w1.inodes,
        forall|d: PathV| #[trigger] w2.dirs.contains(d) ==> w1.dirs.contains(d) || d.is_prefix_of(base),
        wm.env_ok(),
    ensures
        raw_cache::source_ready(w2, value, child(base, name)),
{
    lemma_child(base, name);
    let to = child(base, name);
    assert(!to.is_prefix_of(base)) by {
        if to.is_prefix_of(base) {
            assert(to.len() <= base.len());
        }
    }
    if w2.files.contains_key(value) {
        assert(wm.files.contains_key(value));
        assert(w2.files[value] == wm.files[value]);
        assert(wm.inodes.contains_key(wm.files[value]));
    }
}

/// The exact effect of `CacheDir::set` when nothing failed and the directory exists: maintenance first (`m` is the world after it, with
/// nothing published yet), then the value becomes the newest, unread, read-only entry under its key.
pub open spec fn set_exact(old: World, m: World, fin: World, base: PathV, name: Seq<u8>, value: PathV, maintained: bool) -> bool {
    &&& cleanup_frame(old, m, base)
    &&& (!maintained ==> m.same_fs(old))
    &&& m.files.contains_key(value)
    &&& fin.published == m.published + 1
    &&& fin.files =~= m.files.remove(value).insert(child(base, name), m.files[value])
    &&& fin.inodes =~= m.inodes.insert(m.files[value], raw_cache::published_inode(m.inode_at(value), fin.now, old.gran))
    &&& forall|d: PathV| #[trigger] m.dirs.contains(d) ==> fin.dirs.contains(d)
    &&& forall|d: PathV| #[trigger] fin.dirs.contains(d) ==> m.dirs.contains(d) || d.is_prefix_of(base)
}

/// Same for `put`: inserts like `set` when the key is absent; otherwise only consumes the source and marks
/// the existing entry as read, leaving its content and queue position alone.
pub open spec fn put_exact(old: World, m: World, fin: World, base: PathV, name: Seq<u8>, value: PathV, maintained: bool) -> bool {
    &&& cleanup_frame(old, m, base)
    &&& (!maintained ==> m.same_fs(old))
    &&& m.files.contains_key(value)
    &&& forall|d: PathV| #[trigger] m.dirs.contains(d) ==> fin.dirs.contains(d)
    &&& forall|d: PathV| #[trigger] fin.dirs.contains(d) ==> m.dirs.contains(d) || d.is_prefix_of(base)
    &&& if !m.files.contains_key(child(base, name)) {
        &&& fin.published == m.published + 1
        &&& fin.files =~= m.files.remove(value).insert(child(base, name), m.files[value])
        &&& fin.inodes =~= m.inodes.insert(m.files[value], raw_cache::published_inode(m.inode_at(value), fin.now, old.gran))
    } else {
        &&& fin.published == m.published
        &&& fin.files =~= m.files.remove(value)
        &&& fin.inode_at(child(base, name)) == (Inode { atime: fin.inode_at(child(base, name)).atime, ..m.inode_at(child(base, name)) })
        &&& fin.accessed(child(base, name))
        &&& forall|i: InodeId| i != m.files[value] && i != m.files[child(base, name)] && m.inodes.contains_key(i) ==> #[trigger] fin.inodes[i] == m.inodes[i]
    }
}

/// C15 C16 C17 on every exit of a write: whatever changed is this cache directory's business.
pub open spec fn write_frame(old: World, fin: World, base: PathV, name: Seq<u8>, value: PathV) -> bool {
    &&& forall|d: PathV| #[trigger] old.dirs.contains(d) ==> fin.dirs.contains(d)
    &&& forall|d: PathV| #[trigger] fin.dirs.contains(d) ==> old.dirs.contains(d) || d.is_prefix_of(base)
    &&& forall|p: PathV| #[trigger] fin.files.contains_key(p) && !old.files.contains_key(p) ==> p == child(base, name)
    &&& forall|p: PathV| old.files.contains_key(p) && !(#[trigger] fin.files.contains_key(p)) ==> p == value || (old.in_cache_namespace(p) && parent(p) == base) || (
    p.len() > 0 && parent(p) == child(base, temp_name()))
    &&& forall|p: PathV| #[trigger] fin.files.contains_key(p) && old.files.contains_key(p) && fin.files[p] != old.files[p] ==> p == child(base, name)
}
''')
    cl = u.under_contract(u.item('src/cache_dir.rs', ['fn cleanup_temporary_directory']), ['C02', 'C17', 'C05', 'C06', 'C18', 'C15'])
    cl.air = r'cache_dir::cleanup_temporary_directory(::handle)?'
    cl.add_param(W)
    cl.thread(WORLD_CALLEES)
    HANDLE_CONTRACT = (
        '\n            requires\n                old(w).inv(),\n                dirent.dir() == pbv(*old(temp)),\n'
        '                is_temp_dir_of(*old(w), dirent.dir()),\n                single_component(dirent.name()),\n'
        '            ensures\n                final(w).inv(),\n                final(w).kept(*old(w)) && final(w).now == old(w).now && final(w).listed == old(w).listed,\n'
        '                pbv(*final(temp)) == pbv(*old(temp)),   // @L C17 C02 C16 C18:the-scratch-path-names-the-temp-directory-again-after-every-item\n'
        '                final(w).steps <= old(w).steps + 2 * (2) && final(w).opens == old(w).opens && final(w).published == old(w).published,\n'
        '                final(w).dirs == old(w).dirs && final(w).inodes == old(w).inodes,\n'
        '                final(w).files == old(w).files || (final(w).files == old(w).files.remove(child(dirent.dir(), dirent.name())) '
        '&& old(w).files.contains_key(child(dirent.dir(), dirent.name())) '
        '&& old(w).inode_at(child(dirent.dir(), dirent.name())).mtime < threshold.ns()),   // @L C17 C02:only-stale-temporary-files-are-removed\n'
        '                final(w).hard_faults == old(w).hard_faults && old(w).files.contains_key(child(dirent.dir(), dirent.name())) '
        '&& old(w).inode_at(child(dirent.dir(), dirent.name())).mtime < threshold.ns() ==> !final(w).files.contains_key(child(dirent.dir(), dirent.name())),   // @L C02:a-stale-temporary-file-is-removed-unless-a-call-fails\n')
    closure_shape = cl._find('let mut handle = | | -> Result < ( ) >', count=True) == 1 and cl._find('let _ = handle ( ) ;', count=True) == 1
    if closure_shape:
        cl.replace('let mut handle = | | -> Result < ( ) >',
                   'fn handle(dirent: &DirEntry, temp: &mut PathBuf, threshold: std::time::SystemTime, %s) -> (r: Result<()>)%s' % (W, HANDLE_CONTRACT),
                   'T4-closure-lift')
        cl.replace('handle ( )', 'handle(&dirent, &mut temp, threshold, Tracked(w))', 'T4-closure-call')
        cl.insert_before('let _ = handle', 'let ghost wb = *w;\n        ')
        cl.insert_after('let _ = handle ( ) ;', '\n        proof { lemma_temp_frame_step(*old(w), wb, *w, tdir, reading, dirent.name()); hf = w.hard_faults; }')
        cl.insert_after_stmt('let metadata = dirent . metadata', '\n            broadcast use group_asref;\n            proof { lemma_child(dirent.dir(), dirent.name()); }')
        after_next = ('let ghost kskip = choose|k: int| std::fs::flat_step(l_all.skip(c), k, Some(dirent.name()), kw_it.rem()) && w.hard_faults == hf + k; '
                      'proof { assert(l_all.skip(c).skip(kskip + 1) =~= l_all.skip(c + kskip + 1)); '
                      'assert(l_all[c + kskip] == l_all.skip(c)[kskip]); '
                      'if w.hard_faults == old(w).hard_faults { assert(kskip == 0); } '
                      'c = c + kskip + 1; hf = w.hard_faults; } ')
    else:
        # the per-entry closure is gone: the loop body is woven as it stands; one generic hint at the top of the body says
        # that unlinking a stale child of the temp directory (or doing nothing) keeps the frame
        after_next = ('broadcast use group_asref; let ghost wb0 = *w; proof { lemma_child(tdir, dirent.name()); '
                      'assert forall|a: World, b: World| a.same_fs(wb0) && a.kept(wb0) && #[trigger] b.stepped(a) && (b.same_fs(a) || (b.files == a.files.remove(child(tdir, dirent.name())) '
                      '&& b.dirs == a.dirs && b.inodes == a.inodes && a.files.contains_key(child(tdir, dirent.name())))) '
                      '&& (!b.same_fs(a) ==> wb0.inode_at(child(tdir, dirent.name())).mtime + temp_age_ns() < reading) implies temp_frame(*old(w), b, tdir, reading) by { '
                      'lemma_temp_frame_step(*old(w), wb0, b, tdir, reading, dirent.name()); } } ')
    cl.desugar_for(0, next_args=TW,
                   after_init='let ghost tdir = pbv(temp); let ghost reading = w.now; let ghost l_all = kw_it.rem(); let ghost wl = *w; let ghost mut c: int = 0; let ghost mut hf: nat = w.hard_faults;',
                   after_next=after_next,
                   after_loop='proof { if w.hard_faults == old(w).hard_faults { assert(temp_done(l_all, l_all.len() as int, *w, tdir, reading)); lemma_temp_complete(l_all, wl, *w, tdir, reading); } }')
    cl.loop_contract(0, invariant=[
        ('', 'old(w).inv() && w.inv() && w.kept(*old(w)) && kw_it.dir() == tdir && pbv(temp) == tdir && tdir == cowv(temp_dir) && is_temp_dir_of(*w, tdir) && w.now == reading'),
        ('', 'threshold.ns() == reading - temp_age_ns()'),
        ('C17 C02:only-stale-temporary-files-are-removed', 'temp_frame(*old(w), *w, tdir, reading)'),
        ('', '0 <= c <= l_all.len() && listing_of(l_all, wl, tdir) && wl.files == old(w).files && wl.inodes == old(w).inodes'),
        ('C02:every-listed-stale-temporary-file-seen-so-far-is-gone-unless-a-call-failed', 'w.hard_faults == old(w).hard_faults ==> temp_done(l_all, c, *w, tdir, reading)'),
        ('C06:three-calls-per-directory-item', 'w.steps <= old(w).steps + 2 * (2 + 3 * (w.listed - old(w).listed)) && w.opens == old(w).opens + 1 && w.published == old(w).published'),
        ('C11 C07:nothing-disappears-without-a-directory-scan', 'w.listed == old(w).listed ==> w.files == old(w).files'),
    ], ensures=[('', 'w.hard_faults == old(w).hard_faults ==> c == l_all.len()')], invariant_except_break=[('', 'kw_it.rem() == l_all.skip(c) && hf == w.hard_faults'), ('C06:three-calls-per-directory-item', 'w.steps <= old(w).steps + 2 * (1 + 3 * (w.listed - old(w).listed))')],
        decreases='kw_it.rem().len()')
    cl.contract(
        requires=[('', 'old(w).inv()'),
                  ('C02 C15 C16:cleanup-runs-on-the-temp-subdirectory-of-a-configured-cache-directory', 'is_temp_dir_of(*old(w), cowv(temp_dir))')],
        ensures=[
            INV, ('', 'final(w).kept(*old(w))'),
            ('C17 C02:only-stale-temporary-files-are-removed', 'temp_frame(*old(w), *final(w), cowv(temp_dir), final(w).now)'),
            ('C02:debris-older-than-the-age-limit-is-removed-when-no-call-fails',
             'r.is_ok() && final(w).hard_faults == old(w).hard_faults && old(w).dirs.contains(cowv(temp_dir)) && final(w).now >= temp_age_ns() ==> no_stale_temp(*final(w), cowv(temp_dir), final(w).now)'),
            ('C11 C07:nothing-disappears-without-a-directory-scan', 'final(w).listed == old(w).listed ==> forall|p: PathV| #[trigger] old(w).files.contains_key(p) ==> final(w).files.contains_key(p)'),
            ('C06:three-calls-per-directory-item', 'final(w).steps <= old(w).steps + 2 * (2 + 3 * (final(w).listed - old(w).listed)) && final(w).opens <= old(w).opens + 1 && final(w).published == old(w).published'),
            ('C05 C18 C06:error-is-a-real-fault', 'r.is_err() ==> final(w).hard_faults > old(w).hard_faults'),
        ])
    u.dropped.append('cache_dir.rs: #[cfg(not(test))] on MAX_TEMP_FILE_AGE (the #[cfg(test)] alternative is not compiled into the library)')

    # ---- trait CacheDir ----------------------------------------------------------------------
    t = u.item('src/cache_dir.rs', ['trait CacheDir'])
    t.replace('pub ( crate ) trait', 'pub trait', 'T9-visibility')
    KEEP = {'temp_dir', 'base_dir', 'trigger', 'capacity', 'get', 'touch', 'ensure_temp_dir', 'cleanup_temp_directory',
            'definitely_cleanup', 'maybe_cleanup', 'maintain', 'set', 'put'}
    dropped = t.drop_members_except(KEEP)
    if dropped:
        u.dropped.append('cache_dir.rs: CacheDir members not (yet) under contract: ' + ', '.join(dropped))
    decl = {}
    for name, ret, spec in (('temp_dir', 'PathV', 'cowv(r) == self.spec_temp()'),
                            ('base_dir', 'PathV', 'cowv(r) == self.spec_base()'),
                            ('trigger', 'PeriodicTrigger', '*r == self.spec_trigger()'),
                            ('capacity', 'usize', 'r == self.spec_capacity()')):
        d = t.sub(['fn ' + name])
        d.insert_before_tok(d.fn_kw(), 'spec fn spec_%s(&self) -> %s;\n    ' % (name.replace('_dir', ''), ret))
        d.contract(ensures=[('', spec)])
        decl[name] = d
    # get
    g = u.under_contract(t.sub(['fn get']), ['C01', 'C04', 'C05', 'C06', 'C09', 'C11', 'C13', 'C15', 'C16', 'C18', 'C19', 'C20'])
    g.air = r'cache_dir::CacheDir::get'
    g.add_param(W)
    g.add_arg('File :: open', TW)
    g.add_arg('raw_cache :: ensure_file_touched', TW)
    TARGET = 'child(self.spec_base(), str_bytes(name))'
    g.contract(
        requires=[('', 'old(w).inv()')],
        ensures=[
            INV, BOOK,
            ('C16:invalid-names-fail-with-invalid-input-and-touch-nothing',
             '!first_byte_ok(str_bytes(name)) ==> r.is_err() && err_kind(err_of(r)) == ErrorKind::InvalidInput && *final(w) == *old(w)'),
            ('C06 C20:at-most-three-calls-one-open', 'final(w).steps <= old(w).steps + 2 * (3) && final(w).opens <= old(w).opens + 1 && final(w).published == old(w).published'),
            ('C15 C09:lookup-changes-nothing-but-the-access-time-of-the-entry-found',
             'final(w).atime_only(*old(w)) && forall|i: InodeId| #[trigger] old(w).inodes.contains_key(i) ==> '
             '(final(w).inodes[i].atime != old(w).inodes[i].atime ==> old(w).files.contains_key(%s) && i == old(w).files[%s])' % (TARGET, TARGET)),
            ('C01 C04 C11 C16 C19:hit-is-a-read-only-handle-on-the-file-bound-to-exactly-that-key',
             'r.is_ok() && r.unwrap().is_some() ==> old(w).files.contains_key(%s) && r.unwrap().unwrap().ino() == old(w).files[%s] '
             '&& !r.unwrap().unwrap().can_write() && r.unwrap().unwrap().offset() == 0' % (TARGET, TARGET)),
            ('C09:hit-marks-the-entry-as-read-whatever-the-atime-policy',
             'r.is_ok() && r.unwrap().is_some() && final(w).hard_faults == old(w).hard_faults ==> final(w).accessed(%s)' % TARGET),
            ('C16:success-means-the-name-is-a-valid-key', 'r.is_ok() ==> valid_key(str_bytes(name))'),
            ('C01:a-hit-holds-bytes-some-writer-supplied-for-exactly-this-key',
             'r.is_ok() && r.unwrap().is_some() && old(w).configured_dir(self.spec_base()) ==> final(w).inodes.contains_key(r.unwrap().unwrap().ino()) '
             '&& final(w).supplied.contains((str_bytes(name), final(w).inodes[r.unwrap().unwrap().ino()].content))'),
            ('C05 C04 C11 C18:miss-means-absent',
             'r.is_ok() && r.unwrap().is_none() ==> !old(w).files.contains_key(%s) && final(w).same_fs(*old(w))' % TARGET),
            ('C04 C11 C18:present-entry-is-found',
             'r.is_ok() && old(w).files.contains_key(%s) ==> r.unwrap().is_some()' % TARGET),
            ('C18 C05 C06:error-is-an-invalid-name-or-a-real-fault',
             'r.is_err() ==> err_kind(err_of(r)) == ErrorKind::InvalidInput || final(w).hard_faults > old(w).hard_faults'),
        ])
    g.body_start('broadcast use group_asref;\n        proof { if valid_key(str_bytes(name)) && old(w).configured_dir(self.spec_base()) && old(w).files.contains_key(%s) { lemma_entry_supplied(*old(w), self.spec_base(), str_bytes(name)); } }' % TARGET)
    u.trait_methods = {'get': g}

    # touch
    th = u.under_contract(t.sub(['fn touch']), ['C04', 'C05', 'C06', 'C09', 'C13', 'C15', 'C16', 'C18', 'C20'])
    th.air = r'cache_dir::CacheDir::touch'
    th.add_param(W)
    th.replace('raw_cache :: touch (', 'raw_cache::touch::run(', 'T2-shim-bypass')
    th.add_arg('raw_cache :: touch', TW)
    th.contract(
        requires=[('', 'old(w).inv()')],
        ensures=[
            INV, BOOK,
            ('C16:invalid-names-fail-with-invalid-input-and-touch-nothing',
             '!first_byte_ok(str_bytes(name)) ==> r.is_err() && err_kind(err_of(r)) == ErrorKind::InvalidInput && *final(w) == *old(w)'),
            ('C06 C20:one-filesystem-call', 'final(w).steps <= old(w).steps + 2 * (1) && final(w).opens == old(w).opens && final(w).published == old(w).published'),
            ('C09 C15 C16:touch-marks-exactly-that-entry-without-reordering',
             'r == Ok::<bool, Error>(true) ==> old(w).files.contains_key(%s) && final(w).accessed(%s) '
             '&& final(w).only_inode_changed(*old(w), old(w).files[%s], Inode { atime: final(w).inode_at(%s).atime, ..old(w).inode_at(%s) })'
             % (TARGET, TARGET, TARGET, TARGET, TARGET)),
            ('C05 C04 C18:absence-is-reported-as-false', 'r == Ok::<bool, Error>(false) ==> !old(w).files.contains_key(%s) && final(w).same_fs(*old(w))' % TARGET),
            ('C15 C09:touch-changes-nothing-but-the-access-time-of-the-entry-found',
             'final(w).atime_only(*old(w)) && forall|i: InodeId| #[trigger] old(w).inodes.contains_key(i) ==> '
             '(final(w).inodes[i].atime != old(w).inodes[i].atime ==> old(w).files.contains_key(%s) && i == old(w).files[%s])' % (TARGET, TARGET)),
            ('C18 C05 C06:error-is-an-invalid-name-or-a-real-fault',
             'r.is_err() ==> final(w).same_fs(*old(w)) && (err_kind(err_of(r)) == ErrorKind::InvalidInput || final(w).hard_faults > old(w).hard_faults)'),
        ])
    th.body_start('broadcast use group_asref;')
    u.trait_methods['touch'] = th

    # ---- maintenance plumbing and writes ------------------------------------------------------
    BASE = 'self.spec_base()'
    et = u.under_contract(t.sub(['fn ensure_temp_dir']), ['C02', 'C15', 'C16', 'C18', 'C06'])
    et.air = r'cache_dir::CacheDir::ensure_temp_dir'
    et.add_param(W)
    et.add_arg('ensure_directory', TW)
    et.contract(
        requires=[('', 'old(w).inv() && (self.spec_temp() == child(self.spec_base(), temp_name()) && old(w).cache_dirs.contains(self.spec_base()) && !old(w).under_ro(self.spec_base()) && !old(w).under_ro(self.spec_temp()) && (forall|n: Seq<u8>| !old(w).under_ro(#[trigger] child(self.spec_base(), n))) && (forall|n: Seq<u8>| !old(w).under_ro(#[trigger] child(self.spec_temp(), n))))')],
        ensures=[INV, BOOK,
                 ('C02 C16:temp-dir-is-the-kismet-temp-subdirectory', 'r.is_ok() ==> cowv(r.unwrap()) == self.spec_temp() && final(w).dirs.contains(self.spec_temp())'),
                 ('C02 C15:only-directories-are-created', 'final(w).files == old(w).files && final(w).inodes == old(w).inodes && final(w).published == old(w).published '
                  '&& (forall|d: PathV| #[trigger] old(w).dirs.contains(d) ==> final(w).dirs.contains(d)) '
                  '&& (forall|d: PathV| #[trigger] final(w).dirs.contains(d) ==> old(w).dirs.contains(d) || d.is_prefix_of(self.spec_temp()))'),
                 ('C06 C20:at-most-two-filesystem-calls', 'final(w).steps <= old(w).steps + 2 * (2) && final(w).opens == old(w).opens'),
                 ('C18:error-is-a-real-fault', 'r.is_err() ==> final(w).hard_faults > old(w).hard_faults')])
    et.body_start('proof { lemma_child(self.spec_base(), temp_name()); }')
    u.trait_methods['temp_dir'] = et

    ct = u.under_contract(t.sub(['fn cleanup_temp_directory']), ['C02', 'C17', 'C18', 'C06'])
    ct.air = r'cache_dir::CacheDir::cleanup_temp_directory'
    ct.add_param(W)
    ct.add_arg('cleanup_temporary_directory', TW)
    ct.contract(
        requires=[('', 'old(w).inv() && (self.spec_temp() == child(self.spec_base(), temp_name()) && old(w).cache_dirs.contains(self.spec_base()) && !old(w).under_ro(self.spec_base()) && !old(w).under_ro(self.spec_temp()) && (forall|n: Seq<u8>| !old(w).under_ro(#[trigger] child(self.spec_base(), n))) && (forall|n: Seq<u8>| !old(w).under_ro(#[trigger] child(self.spec_temp(), n))))')],
        ensures=[INV, ('', 'final(w).kept(*old(w))'),
                 ('C17 C02:only-stale-temporary-files-are-removed', 'temp_frame(*old(w), *final(w), self.spec_temp(), final(w).now)'),
                 ('C02:debris-older-than-the-age-limit-is-removed-when-no-call-fails',
                  'r.is_ok() && final(w).hard_faults == old(w).hard_faults && old(w).dirs.contains(self.spec_temp()) && final(w).now >= temp_age_ns() ==> no_stale_temp(*final(w), self.spec_temp(), final(w).now)'),
                 ('C11 C07:nothing-disappears-without-a-directory-scan', 'final(w).listed == old(w).listed ==> forall|p: PathV| #[trigger] old(w).files.contains_key(p) ==> final(w).files.contains_key(p)'),
                 ('C06:three-calls-per-directory-item', 'final(w).steps <= old(w).steps + 2 * (2 + 3 * (final(w).listed - old(w).listed)) && final(w).opens <= old(w).opens + 1 && final(w).published == old(w).published'),
                 ('C05 C18 C06:error-is-a-real-fault', 'r.is_err() ==> final(w).hard_faults > old(w).hard_faults')])
    ct.body_start('proof { lemma_child(self.spec_base(), temp_name()); }')

    dc = u.under_contract(t.sub(['fn definitely_cleanup']), ['C02', 'C07', 'C17', 'C05', 'C18', 'C06', 'C10', 'C11'])
    dc.air = r'cache_dir::CacheDir::definitely_cleanup'
    dc.add_param(W)
    dc.add_arg('raw_cache :: prune', TW)
    dc.add_arg('self . cleanup_temp_directory', TW)
    dc.contract(
        requires=[('', 'old(w).inv() && (self.spec_temp() == child(self.spec_base(), temp_name()) && old(w).cache_dirs.contains(self.spec_base()) && !old(w).under_ro(self.spec_base()) && !old(w).under_ro(self.spec_temp()) && (forall|n: Seq<u8>| !old(w).under_ro(#[trigger] child(self.spec_base(), n))) && (forall|n: Seq<u8>| !old(w).under_ro(#[trigger] child(self.spec_temp(), n)))) && pbv(base_dir) == self.spec_base()')],
        ensures=[INV, ('', 'final(w).kept(*old(w))'),
                 ('C17 C07 C02 C16:maintenance-deletes-only-evictable-entries-and-stale-temporary-files', 'cleanup_frame(*old(w), *final(w), self.spec_base())'),
                 ('C02:debris-older-than-the-age-limit-is-removed-when-no-call-fails',
                  'r.is_ok() && final(w).hard_faults == old(w).hard_faults && old(w).dirs.contains(self.spec_base()) && old(w).dirs.contains(self.spec_temp()) && final(w).now >= temp_age_ns() '
                  '==> no_stale_temp(*final(w), self.spec_temp(), final(w).now)'),
('C07 C11:the-second-chance-plan-for-the-configured-capacity-is-applied-and-then-only-stale-temporary-files-go',
                  'r.is_ok() && final(w).hard_faults == old(w).hard_faults && old(w).dirs.contains(self.spec_base()) ==> '
                  'exists|m: World, recs: Seq<raw_cache::CachedFile>, ev: Seq<raw_cache::CachedFile>, mb: Seq<raw_cache::CachedFile>| '
                  '#[trigger] raw_cache::prune_exact(*old(w), m, self.spec_base(), self.spec_capacity() as nat, recs, ev, mb) '
                  '&& ev.len() == (if recs.len() <= self.spec_capacity() { 0 } else { recs.len() - self.spec_capacity() }) '
                  '&& temp_frame(m, *final(w), self.spec_temp(), final(w).now)'),
                 ('C11 C07:nothing-disappears-without-a-directory-scan', 'final(w).listed == old(w).listed ==> forall|p: PathV| #[trigger] old(w).files.contains_key(p) ==> final(w).files.contains_key(p)'),
                 ('C06:linear-in-the-number-of-directory-entries', 'final(w).steps <= old(w).steps + 2 * (4 + 3 * (final(w).listed - old(w).listed)) && final(w).opens <= old(w).opens + 2'),
                 ('C05 C18 C06:error-is-a-real-fault', 'r.is_err() ==> final(w).hard_faults > old(w).hard_faults')])
    dc.insert_before('self . cleanup_temp_directory ( ) ? ;',
                     'let ghost wm = *w;\n        proof {\n'
                     '            assert forall|fin: World| #[trigger] temp_frame(wm, fin, self.spec_temp(), fin.now) && fin.kept(wm) && fin.published == wm.published implies cleanup_frame(*old(w), fin, self.spec_base()) by {\n'
                     '                lemma_cleanup_compose(*old(w), wm, fin, self.spec_base());\n'
                     '            }\n        }\n        ')
    dc.body_start('proof { lemma_cleanup_frame_same(*old(w), self.spec_base()); }')

    mc = u.under_contract(t.sub(['fn maybe_cleanup']), ['C10', 'C02', 'C07', 'C17', 'C05', 'C18', 'C06', 'C20', 'C11'])
    mc.air = r'cache_dir::CacheDir::maybe_cleanup'
    mc.add_param(W)
    mc.add_arg('self . trigger ( ) . event', TW)
    mc.add_arg('self . definitely_cleanup', TW)
    mc.contract(
        requires=[('', 'old(w).inv() && (self.spec_temp() == child(self.spec_base(), temp_name()) && old(w).cache_dirs.contains(self.spec_base()) && !old(w).under_ro(self.spec_base()) && !old(w).under_ro(self.spec_temp()) && (forall|n: Seq<u8>| !old(w).under_ro(#[trigger] child(self.spec_base(), n))) && (forall|n: Seq<u8>| !old(w).under_ro(#[trigger] child(self.spec_temp(), n)))) && pv(base_dir) == self.spec_base()')],
        ensures=[INV, ('', 'final(w).kept_nc(*old(w))'),
                 ('C10:every-write-is-one-trigger-event-and-maintenance-runs-iff-it-fires',
                  'observe_step(old(w).counter, self.spec_trigger().spec_scale(), !(r == Ok::<Option<u64>, Error>(None)), final(w).counter)'),
                 ('C20 C06 C10:no-filesystem-call-unless-the-trigger-fires',
                  'r == Ok::<Option<u64>, Error>(None) ==> *final(w) == (World { counter: final(w).counter, ..*old(w) })'),
                 ('C17 C07 C02 C16:maintenance-deletes-only-evictable-entries-and-stale-temporary-files', 'cleanup_frame(*old(w), *final(w), self.spec_base())'),
                 ('C11 C07:nothing-disappears-without-a-directory-scan', 'final(w).listed == old(w).listed ==> forall|p: PathV| #[trigger] old(w).files.contains_key(p) ==> final(w).files.contains_key(p)'),
                 ('C06:linear-in-the-number-of-directory-entries', 'final(w).steps <= old(w).steps + 2 * (4 + 3 * (final(w).listed - old(w).listed)) && final(w).opens <= old(w).opens + 2'),
                 ('C05 C18 C06:error-is-a-real-fault', 'r.is_err() ==> final(w).hard_faults > old(w).hard_faults')])
    mc.body_start('proof { lemma_cleanup_frame_same(*old(w), self.spec_base()); }')

    mt = u.under_contract(t.sub(['fn maintain']), ['C07', 'C17', 'C02', 'C05', 'C18', 'C06'])
    mt.air = r'cache_dir::CacheDir::maintain'
    mt.add_param(W)
    mt.add_arg('self . definitely_cleanup', TW)
    mt.contract(
        requires=[('', 'old(w).inv() && (self.spec_temp() == child(self.spec_base(), temp_name()) && old(w).cache_dirs.contains(self.spec_base()) && !old(w).under_ro(self.spec_base()) && !old(w).under_ro(self.spec_temp()) && (forall|n: Seq<u8>| !old(w).under_ro(#[trigger] child(self.spec_base(), n))) && (forall|n: Seq<u8>| !old(w).under_ro(#[trigger] child(self.spec_temp(), n))))')],
        ensures=[INV, ('', 'final(w).kept(*old(w))'),
                 ('C17 C07 C02 C16:maintenance-deletes-only-evictable-entries-and-stale-temporary-files', 'cleanup_frame(*old(w), *final(w), self.spec_base())'),
                 ('C02:debris-older-than-the-age-limit-is-removed-when-no-call-fails',
                  'r.is_ok() && final(w).hard_faults == old(w).hard_faults && old(w).dirs.contains(self.spec_base()) && old(w).dirs.contains(self.spec_temp()) && final(w).now >= temp_age_ns() '
                  '==> no_stale_temp(*final(w), self.spec_temp(), final(w).now)'),
('C07 C11:the-second-chance-plan-for-the-configured-capacity-is-applied-and-then-only-stale-temporary-files-go',
                  'r.is_ok() && final(w).hard_faults == old(w).hard_faults && old(w).dirs.contains(self.spec_base()) ==> '
                  'exists|m: World, recs: Seq<raw_cache::CachedFile>, ev: Seq<raw_cache::CachedFile>, mb: Seq<raw_cache::CachedFile>| '
                  '#[trigger] raw_cache::prune_exact(*old(w), m, self.spec_base(), self.spec_capacity() as nat, recs, ev, mb) '
                  '&& ev.len() == (if recs.len() <= self.spec_capacity() { 0 } else { recs.len() - self.spec_capacity() }) '
                  '&& temp_frame(m, *final(w), self.spec_temp(), final(w).now)'),
                 ('C11 C07:nothing-disappears-without-a-directory-scan', 'final(w).listed == old(w).listed ==> forall|p: PathV| #[trigger] old(w).files.contains_key(p) ==> final(w).files.contains_key(p)'),
                 ('C06:linear-in-the-number-of-directory-entries', 'final(w).steps <= old(w).steps + 2 * (4 + 3 * (final(w).listed - old(w).listed)) && final(w).opens <= old(w).opens + 2'),
                 ('C05 C18 C06:error-is-a-real-fault', 'r.is_err() ==> final(w).hard_faults > old(w).hard_faults')])

    for opname, inner, nsteps in (('set', 'insert_or_update', 11), ('put', 'insert_or_touch', 13)):
        f = u.under_contract(t.sub(['fn ' + opname]), ['C01', 'C02', 'C03', 'C04', 'C05', 'C06', 'C09', 'C10', 'C11', 'C15', 'C16', 'C17', 'C18', 'C19', 'C20'])
        f.air = r'cache_dir::CacheDir::' + opname
        f.add_param(W)
        f.add_arg('self . maybe_cleanup', TW)
        f.replace('raw_cache :: %s (' % inner, 'raw_cache::%s::run(' % inner, 'T2-shim-bypass')
        f.add_arg('raw_cache :: ' + inner, TW)
        f.add_arg('std :: fs :: create_dir_all', TW)
        DST = 'child(self.spec_base(), str_bytes(name))'
        exact = ('set_exact' if opname == 'set' else 'put_exact')
        f.contract(
            requires=[('', 'old(w).inv()'),
                      ('C15 C16:writes-run-on-a-configured-read-write-cache-directory',
                       'valid_key(str_bytes(name)) ==> (self.spec_temp() == child(self.spec_base(), temp_name()) && old(w).cache_dirs.contains(self.spec_base()) && !old(w).under_ro(self.spec_base()) && !old(w).under_ro(self.spec_temp()) && (forall|n: Seq<u8>| !old(w).under_ro(#[trigger] child(self.spec_base(), n))) && (forall|n: Seq<u8>| !old(w).under_ro(#[trigger] child(self.spec_temp(), n))))'),
                      ('C01 C03:caller-hands-in-a-private-finished-file-holding-the-value-for-this-key',
                       'valid_key(str_bytes(name)) ==> value_ready(*old(w), pv(value), self.spec_base(), str_bytes(name))')],
            ensures=[
                INV, ('', 'final(w).kept_nc(*old(w))'),
                ('C16:invalid-names-fail-with-invalid-input-and-touch-nothing',
                 '!first_byte_ok(str_bytes(name)) || str_bytes(name).contains(0x2fu8) ==> r.is_err() && err_kind(err_of(r)) == ErrorKind::InvalidInput && *final(w) == *old(w)'),
                ('C10:maintenance-precedes-the-insertion-and-runs-iff-the-trigger-fires',
                 'r.is_ok() ==> observe_step(old(w).counter, self.spec_trigger().spec_scale(), r.unwrap().is_some(), final(w).counter)'),
                ('C10 C09:maintenance-never-runs-after-the-write-has-published-its-file',
                 'final(w).published > old(w).published ==> final(w).pub_listed == final(w).listed'),
                ('C06 C20:constant-number-of-filesystem-calls-outside-maintenance',
                 'r.is_ok() && r.unwrap().is_none() ==> final(w).steps <= old(w).steps + 2 * (%d) && final(w).opens == old(w).opens && final(w).listed == old(w).listed' % nsteps),
                ('C06:linear-in-the-number-of-directory-entries-with-maintenance',
                 'final(w).steps <= old(w).steps + 2 * (%d + 3 * (final(w).listed - old(w).listed)) && final(w).opens <= old(w).opens + 2' % (nsteps + 4)),
                ('C18 C11:success-means-the-key-is-bound-and-the-source-consumed',
                 'r.is_ok() ==> old(w).files.contains_key(pv(value)) && !final(w).files.contains_key(pv(value)) && final(w).files.contains_key(%s)' % DST
                 + (' && final(w).files[%s] == old(w).files[pv(value)]' % DST if opname == 'set' else '')),
                ('C13 C11 C18:success-means-a-publication-happened' + ('' if opname == 'set' else '-unless-the-key-was-already-bound'),
                 'r.is_ok() ==> final(w).published > old(w).published' + ('' if opname == 'set' else ' || old(w).files.contains_key(%s)' % DST)),
                ('C18 C05 C06:without-a-real-fault-a-failed-write-published-nothing', 'r.is_err() && final(w).hard_faults == old(w).hard_faults ==> final(w).published == old(w).published'),
                ] + ([] if opname == 'set' else [('C11 C04:put-never-overwrites-an-existing-entry',
                                                 'r.is_ok() && final(w).hard_faults == old(w).hard_faults && final(w).listed == old(w).listed && old(w).files.contains_key(%s) ==> final(w).published == old(w).published' % DST)]) + [
                ('C01 C03 C19:a-write-never-changes-the-bytes-of-any-file',
                 'bytes_kept(*old(w), *final(w))'),
                ('C11 C04 C09 C10:exact-effect-when-nothing-failed',
                 'r.is_ok() && final(w).hard_faults == old(w).hard_faults && old(w).dirs.contains(self.spec_base()) ==> exists|m: World| #[trigger] %s(*old(w), m, *final(w), self.spec_base(), str_bytes(name), pv(value), r.unwrap().is_some())' % exact),
                ('C15 C16 C17:nothing-outside-this-cache-directory-changes',
                 'write_frame(*old(w), *final(w), self.spec_base(), str_bytes(name), pv(value))'),
                ('C18 C05 C06:error-is-explained',
                 'r.is_err() ==> err_kind(err_of(r)) == ErrorKind::InvalidInput || final(w).hard_faults > old(w).hard_faults '
                 '|| !final(w).files.contains_key(pv(value))'),
            ])
        f.body_start('broadcast use group_asref;\n        proof { lemma_cleanup_frame_same(*old(w), self.spec_base()); }')
        u.trait_methods[opname] = f
        f.insert_after_stmt('let ret = self . maybe_cleanup (', '\n        let ghost wm = *w;\n        proof { lemma_child(self.spec_base(), str_bytes(name)); if valid_key(str_bytes(name)) { lemma_ready_after_cleanup(*old(w), wm, pv(value), self.spec_base(), str_bytes(name)); } }')
        f.insert_before('return Ok ( ret ) ;', 'proof { if w.hard_faults == old(w).hard_faults { assert(%s(*old(w), wm, *w, self.spec_base(), str_bytes(name), pv(value), ret.is_some())); } }\n            ' % exact)
        f.insert_before('std :: fs :: create_dir_all', 'let ghost w1 = *w;\n        ', nth=0)
        f.insert_after('. expect ( "must have parent" ) ) ? ;', '\n        let ghost w2 = *w;\n        proof { lemma_ready_after_retry(wm, w1, w2, pv(value), self.spec_base(), str_bytes(name)); }', nth=0)
    u.text('}\n')


def emit_temp_subdir(u):
    """lib.rs: `KISMET_TEMPORARY_SUBDIRECTORY`.  Verus does not know the bytes of a string literal, so the
    weaver compares the literal with `temp_name()` itself: equal -> the fact is emitted as an axiom about
    that literal; different -> a labelled obligation that cannot be discharged (a violation, not a lost anchor)."""
    import rustlex
    c = u.item('src/lib.rs', ['const KISMET_TEMPORARY_SUBDIRECTORY'])
    c.insert_after('KISMET_TEMPORARY_SUBDIRECTORY : &', "'static ")   # elided lifetime spelled out (Verus consts)
    lit = [t for t in c.ct[c.item.lo:c.item.hi + 1] if t[0] == 'str']
    ok = len(lit) == 1 and lit[0][1] == '".kismet_temp"'
    if ok:
        u.text('''
/// The literal in lib.rs is ".kismet_temp" (compared token-for-token by the weaver on this run).
#[verifier::external_body]
pub proof fn lemma_temp_subdir()
    ensures
        str_bytes(KISMET_TEMPORARY_SUBDIRECTORY) == temp_name(),
        single_component(temp_name()),
{
}
''')
        u.trusted_notes.append('lemma_temp_subdir: bytes of the literal ".kismet_temp" (checked token-for-token by the weaver against lib.rs)')
    else:
        u.text('''
pub proof fn lemma_temp_subdir()
    ensures
        str_bytes(KISMET_TEMPORARY_SUBDIRECTORY) == temp_name(),
        single_component(temp_name()),
{
    assert(false);   // @L C02 C17 C16:temporary-subdirectory-is-named-dot-kismet-temp
}
''')


def weave_plain(u):
    """plain.rs: the CacheDir impl and the thin public wrappers."""
    emit_temp_subdir(u)
    u.text('pub mod plain {\n' + MOD_HEAD + 'use crate::cache_dir::CacheDir;\nuse crate::cache_dir::*;\nuse crate::trigger::PeriodicTrigger;\nuse crate::std::fs::File;\n'
           'use crate::KISMET_TEMPORARY_SUBDIRECTORY as TEMP_SUBDIR;\n')
    c = u.item('src/plain.rs', ['const MAINTENANCE_SCALE'])
    st = u.item('src/plain.rs', ['struct Cache'])
    st.drop_attrs()
    u.dropped.append('plain.rs: #[derive(Clone, Debug)] on Cache')
    u.text('''
impl Cache {
    pub closed spec fn spec_temp_dir(&self) -> PathV { pbv(self.temp_dir) }
    pub closed spec fn spec_trig(&self) -> PeriodicTrigger { self.trigger }
    pub closed spec fn spec_cap(&self) -> usize { self.capacity }
    /// Handle invariant established by `new`: the stored path is `<base>/.kismet_temp`.
    pub open spec fn wf(&self) -> bool {
        self.spec_temp_dir().len() > 0 && base_name(self.spec_temp_dir()) == temp_name()
    }
}
''')
    ic = u.item('src/plain.rs', ['impl CacheDir for Cache'])
    ic.drop_inner_attrs('# [ inline ]')
    for name, body in (('temp_dir', 'self.spec_temp_dir()'), ('base_dir', 'if self.spec_temp_dir().len() > 0 { parent(self.spec_temp_dir()) } else { self.spec_temp_dir() }'),
                       ('trigger', 'self.spec_trig()'), ('capacity', 'self.spec_cap()')):
        m = ic.sub(['fn ' + name])
        ret = {'temp_dir': 'PathV', 'base_dir': 'PathV', 'trigger': 'PeriodicTrigger', 'capacity': 'usize'}[name]
        m.insert_before_tok(m.fn_kw(), 'open spec fn spec_%s(&self) -> %s { %s }\n\n    ' % (name.replace('_dir', ''), ret, body))
    INV = ('C02 C18:valid-on-every-exit', 'final(w).inv()')
    im = u.item('src/plain.rs', ['impl Cache'])
    nw = u.under_contract(im.sub(['fn new']), ['C10', 'C16', 'C02'])
    nw.air = 'plain::Cache::new'
    nw.contract(ensures=[
        ('C10:maintenance-period-is-a-third-of-the-capacity', 'r.spec_trig().spec_scale() as int == scale_spec((capacity / 3) as u64) && r.spec_cap() == capacity'),
        ('C16 C02:temp-dir-is-the-kismet-temp-subdirectory-of-the-base', 'r.spec_temp_dir() == child(pbv(base_dir), temp_name()) && r.wf()'),
    ])
    nw.body_start('broadcast use group_asref;\n        proof { lemma_temp_subdir(); lemma_child(pbv(base_dir), temp_name()); }')
    for name, args in (('get', 'name'), ('temp_dir', ''), ('set', 'name, value'), ('put', 'name, value'), ('touch', 'name')):
        m = u.under_contract(im.sub(['fn ' + name]), ['C11', 'C16', 'C13', 'C05', 'C06', 'C18', 'C20', 'C15'])
        m.air = 'plain::Cache::' + name
        m.add_param(W)
        callee = {'get': 'CacheDir :: get', 'temp_dir': 'CacheDir :: ensure_temp_dir', 'set': 'CacheDir :: set', 'put': 'CacheDir :: put', 'touch': 'CacheDir :: touch'}[name]
        m.add_arg(callee, TW)
        # the wrappers have the contract of the trait method they forward to (set/put drop the estimate)
        req, ens = u.trait_methods[name].last_contract
        if name in ('set', 'put'):
            ens = [(l, t) for (l, t) in ens if 'r.unwrap()' not in t]
            # the wrapper drops the estimate, not the fact that the write was one trigger event (whether it fired or not)
            ens = ens + [('C10:every-write-is-exactly-one-trigger-event',
                          'r.is_ok() ==> exists|fired: bool| #[trigger] observe_step(old(w).counter, self.spec_trigger().spec_scale(), fired, final(w).counter)')]
            ens = ens + [('C11 C04 C09:exact-effect-when-nothing-failed',
                          'r.is_ok() && final(w).hard_faults == old(w).hard_faults && old(w).dirs.contains(self.spec_base()) ==> exists|m: World, fired: bool| '
                          '#[trigger] %s(*old(w), m, *final(w), self.spec_base(), str_bytes(name), pv(value), fired)' % ('set_exact' if name == 'set' else 'put_exact'))]
        m.contract(requires=[(l, t) for (l, t) in req] + [('', 'self.wf()')], ensures=ens)
    u.text('}\n')
    return im


def thread_all(u):
    for v in u.fns:
        if any(ch.text.strip().endswith('Tracked(w): Tracked<&mut World>') for ch in v.chunks if v.ct[v.lo][2] <= ch.pos <= v.ct[v.hi][3]):
            v.thread(WORLD_CALLEES)


def build(u):
    u.prelude('world.rs')
    u.prelude('vfs.rs')
    u.prelude('trigger_env.rs')
    _unit('u2_trigger').weave_trigger(u, props=['C10'])
    weave_benign(u)
    u.prelude('std_vec.rs')
    u.prelude('clock.rs')
    _unit('u1_planner').weave_planner(u, ['C07', 'C08'])
    weave_raw_leaves(u)
    weave_maintenance(u)
    weave_cache_dir_head(u)
    weave_plain(u)
    thread_all(u)
    return u
