"""U6: the stacked front-ends (readonly.rs, stack.rs) on top of U5."""
from extract import ExtractError
import importlib.util
import os

SERVES = ['C01', 'C02', 'C03', 'C05', 'C06', 'C07', 'C09', 'C10', 'C11', 'C12', 'C13', 'C14', 'C15', 'C16', 'C17', 'C18', 'C19', 'C20']
VERUS_FLAGS = ['--no-trait-conflicts']
W = 'Tracked(w): Tracked<&mut World>'
REJ = '(err_kind(err_of(r)) == ErrorKind::InvalidInput)'   # the error is a rejected name (whatever the validation rejects)
TW = 'Tracked(w)'


def _unit(name):
    p = os.path.join(os.path.dirname(os.path.abspath(__file__)), name + '.py')
    spec = importlib.util.spec_from_file_location(name, p)
    m = importlib.util.module_from_spec(spec)
    spec.loader.exec_module(m)
    return m


CHECKER_BOUND = 'Fn(&mut File, &mut File) -> Result<()>'


def build(u):
    u5 = _unit('u5_sharded')
    u4 = _unit('u4_rawfs')
    u5.build(u)
    u.prelude('stack_env.rs')
    weave_readonly(u, u4)
    weave_stack(u, u4)
    # T15: helpers without a contract that code under contract calls are inlined when mechanically possible
    world_fns = set()
    for v in u.fns:
        if any(ch.text.strip().endswith('Tracked(w): Tracked<&mut World>') for ch in v.chunks if v.ct[v.lo][2] <= ch.pos <= v.ct[v.hi][3]):
            world_fns.add(v.item.name)
    world_fns -= {'new', 'doit', 'run'}
    table = list(u4.WORLD_CALLEES) + ['. ' + n for n in sorted(world_fns)] + sorted(world_fns)
    u.inline_new_helpers(table)
    u4.thread_all(u)
    # calls of the cache operations on any receiver inside readonly.rs / stack.rs (every receiver there is a cache level)
    for v in u.fns:
        if v.relpath in ('src/stack.rs', 'src/readonly.rs') and any(
                ch.text.strip().endswith('Tracked(w): Tracked<&mut World>') for ch in v.chunks if v.ct[v.lo][2] <= ch.pos <= v.ct[v.hi][3]):
            v.thread(['. get', '. touch', '. set', '. put', '. temp_dir'])
    n16 = 0
    for v in u.fns:
        if v.item.body_range():
            n16 += v.name_closure_wildcards()
    if n16:
        u.dropped.append('T16: %d closure head(s) `|_|` spelled `|kv_unused|`' % n16)
    for v in u.fns:
        if v.item.body_range():
            v.static_str_consts()
    n17 = 0
    for v in u.fns:
        if v.item.body_range():
            n17 += v.spell_byte_strings()
    if n17:
        u.dropped.append('T17: %d byte-string literal(s) spelled as array references' % n17)
    return u


# what a level of a stack promises about a lookup, as trait-level contract of ReadSide / FullCache
def level_get_ensures(lookup, configured):
    return [
        ('C16:success-means-the-name-is-a-valid-key', 'r.is_ok() ==> valid_key(str_bytes(key.name))'),
        ('C01:a-hit-holds-bytes-some-writer-supplied-for-exactly-this-key',
         'r.is_ok() && r.unwrap().is_some() && %s ==> final(w).inodes.contains_key(r.unwrap().unwrap().ino()) '
         '&& final(w).supplied.contains((str_bytes(key.name), final(w).inodes[r.unwrap().unwrap().ino()].content))' % configured),
        ('C02 C18:valid-on-every-exit', 'final(w).inv()'),
        ('', 'final(w).kept(*old(w)) && final(w).listed == old(w).listed && final(w).published == old(w).published'),
        ('C16:invalid-names-fail-with-invalid-input-and-touch-nothing',
         '!first_byte_ok(str_bytes(key.name)) ==> r.is_err() && err_kind(err_of(r)) == ErrorKind::InvalidInput && *final(w) == *old(w)'),
        ('C15 C09:a-lookup-changes-nothing-but-access-times',
         'final(w).atime_only(*old(w))'),
        ('C13 C11 C01 C19:a-hit-is-a-read-only-handle-at-offset-zero-on-the-copy-this-level-holds',
         'r.is_ok() && r.unwrap().is_some() ==> %s == Some(r.unwrap().unwrap().ino()) && !r.unwrap().unwrap().can_write() && r.unwrap().unwrap().offset() == 0' % lookup),
        ('C13 C11 C05 C18:a-miss-means-this-level-holds-no-copy', 'r.is_ok() && r.unwrap().is_none() ==> %s.is_none()' % lookup),
        ('C18 C05 C06:error-is-an-invalid-name-or-a-real-fault',
         'r.is_err() ==> err_kind(err_of(r)) == ErrorKind::InvalidInput || final(w).hard_faults > old(w).hard_faults'),
        ('C06 C20:at-most-two-opens-per-level', 'final(w).steps <= old(w).steps + 2 * (6) && final(w).opens <= old(w).opens + 2'),
    ]


def level_touch_ensures(lookup):
    return [
        ('C02 C18:valid-on-every-exit', 'final(w).inv()'),
        ('', 'final(w).kept(*old(w)) && final(w).listed == old(w).listed && final(w).published == old(w).published'),
        ('C16:invalid-names-fail-with-invalid-input-and-touch-nothing',
         '!first_byte_ok(str_bytes(key.name)) ==> r.is_err() && err_kind(err_of(r)) == ErrorKind::InvalidInput && *final(w) == *old(w)'),
        ('C15 C09:a-touch-changes-nothing-but-access-times',
         'final(w).atime_only(*old(w))'),
        ('C13 C09:true-means-this-level-holds-a-copy-now-marked-as-read',
         'r == Ok::<bool, Error>(true) ==> %s.is_some() && final(w).inodes[%s.unwrap()].atime >= final(w).inodes[%s.unwrap()].mtime' % (lookup, lookup, lookup)),
        ('C13 C05 C18:false-means-this-level-holds-no-copy', 'r == Ok::<bool, Error>(false) ==> %s.is_none()' % lookup),
        ('C18 C05 C06:error-is-an-invalid-name-or-a-real-fault',
         'r.is_err() ==> err_kind(err_of(r)) == ErrorKind::InvalidInput || final(w).hard_faults > old(w).hard_faults'),
        ('C06 C20:at-most-two-calls-per-level', 'final(w).steps <= old(w).steps + 2 * (2) && final(w).opens == old(w).opens'),
    ]


def weave_readonly(u, u4):
    from weave import Repl
    u.text('pub mod readonly {\n' + u4.MOD_HEAD + 'use crate::std::fs::File;\n#[allow(unused_imports)]\nuse crate::benign_error::is_absent_file_error;\nuse crate::plain::Cache as PlainCache;\nuse crate::sharded::Cache as ShardedCache;\n'
           'use crate::sharded::entry_in;\nuse crate::sharded::sharded_lookup;\nuse crate::Key;\nuse crate::Arc;\nuse crate::cache_dir::CacheDir;\n')
    u.text('''
/// The copy a plain directory holds for `name`: the inode bound to child(base, name).
pub open spec fn plain_lookup(links: Map<PathV, InodeId>, base: PathV, name: Seq<u8>) -> Option<InodeId> {
    if links.contains_key(child(base, name)) { Some(links[child(base, name)]) } else { None }
}

/// Nothing directly inside `<base>/.kismet_temp` is ever what a plain lookup returns.
pub proof fn lemma_plain_temp_blind(base: PathV, temp: PathV)
    requires
        temp == child(base, temp_name()),
    ensures
        forall|links: Map<PathV, InodeId>, n: Seq<u8>, i: InodeId, name: Seq<u8>| #[trigger] plain_lookup(links.insert(child(temp, n), i), base, name) == plain_lookup(links, base, name),
{
    assert forall|links: Map<PathV, InodeId>, n: Seq<u8>, i: InodeId, name: Seq<u8>| #[trigger] plain_lookup(links.insert(child(temp, n), i), base, name) == plain_lookup(links, base, name) by {
        assert(child(temp, n).len() == base.len() + 2);
        assert(child(base, name).len() == base.len() + 1);
    }
}
''')
    t = u.item('src/readonly.rs', ['trait ReadSide'])
    t.insert_before('trait ReadSide', 'pub ')   # T9: visibility only
    # T7: marker supertraits carry no behaviour
    a, _ = t._find('trait ReadSide :')
    o, _ = t.body()
    t.repls.append(Repl(t.ct[a + 2][2], t.ct[o - 1][3], '', 'T7-marker-bounds'))
    g = t.sub(['fn get'])
    g.insert_before_tok(g.fn_kw(),
                        '/// Which copy (inode) this level holds for `key`, as a function of the link map only.\n'
                        '    spec fn lookup(&self, links: Map<PathV, InodeId>, key: Key) -> Option<InodeId>;\n\n'
                        '    /// Handle well-formedness (established by the constructors).\n'
                        '    spec fn level_wf(&self) -> bool;\n\n'
                        '    /// The directories of this level are configured ones (read-write cache directories, or under a read-only root).\n'
                        '    spec fn configured(&self, cfg: (Set<PathV>, Set<PathV>)) -> bool;\n\n'
                        '    ')
    g.add_param(W)
    g.contract(requires=[('', 'old(w).inv() && self.level_wf()')], ensures=level_get_ensures('self.lookup(old(w).files, key)', 'self.configured(old(w).cfg())'))
    th = t.sub(['fn touch'])
    th.add_param(W)
    th.contract(requires=[('', 'old(w).inv() && self.level_wf()')], ensures=level_touch_ensures('self.lookup(old(w).files, key)'))

    for ty, lookup, wf, conf in (('PlainCache', 'plain_lookup(links, self.spec_base(), str_bytes(key.name))', 'self.wf()', 'cfg.0.contains(self.spec_base()) || under_ro_of(cfg.1, self.spec_base())'),
                                 ('ShardedCache', 'sharded_lookup(links, self.spec_root(), self.spec_n(), key)', 'self.wf()', 'self.configured_cfg(cfg)')):
        im = u.item('src/readonly.rs', ['impl ReadSide for ' + ty])
        gg = u.under_contract(im.sub(['fn get']), ['C13', 'C15', 'C11', 'C05', 'C18', 'C19', 'C16', 'C06', 'C20'])
        gg.air = r'%s::Cache::get@readonly' % {'PlainCache': 'plain', 'ShardedCache': 'sharded'}[ty]
        gg.probe_ok = False
        gg.insert_before_tok(gg.fn_kw(),
                             'open spec fn lookup(&self, links: Map<PathV, InodeId>, key: Key) -> Option<InodeId> { %s }\n\n'
                             '    open spec fn level_wf(&self) -> bool { %s }\n\n'
                             '    open spec fn configured(&self, cfg: (Set<PathV>, Set<PathV>)) -> bool { %s }\n\n'
                             '    ' % (lookup, wf, conf))
        gg.add_param(W)
        gg.add_arg(ty + ' :: get', TW)
        tt = u.under_contract(im.sub(['fn touch']), ['C13', 'C15', 'C09', 'C05', 'C18', 'C16', 'C06', 'C20'])
        tt.air = r'%s::Cache::touch@readonly' % {'PlainCache': 'plain', 'ShardedCache': 'sharded'}[ty]
        tt.probe_ok = False
        tt.add_param(W)
        tt.add_arg(ty + ' :: touch', TW)
    # ---- ReadOnlyCache -------------------------------------------------------------------------
    u.dropped.append('readonly.rs / stack.rs (T7): `type ConsistencyChecker = Arc<dyn Fn(&mut File, &mut File) -> Result<()> + Sync + Send + RefUnwindSafe + UnwindSafe>` '
                     'is replaced by the opaque stand-in struct ConsistencyChecker (prelude/stack_env.rs); call sites `checker(a, b)` become `checker.call(a, b)`; '
                     'marker supertraits of ReadSide / FullCache are dropped')
    st = u.item('src/readonly.rs', ['struct ReadOnlyCache'])
    st.drop_attrs()
    st.drop_inner_attrs('# [ derivative ( Debug = "ignore" ) ]')
    u.dropped.append('readonly.rs: #[derive(Clone, Derivative)] / #[derivative(..)] on ReadOnlyCache; the builder (ReadOnlyCacheBuilder) and Default impls')
    u.text('''
pub type Levels = Seq<Box<dyn ReadSide>>;

/// Every level is a well-formed handle.
pub open spec fn levels_wf(stack: Levels) -> bool {
    forall|i: int| 0 <= i < stack.len() ==> (#[trigger] stack[i]).level_wf()
}

/// Every level's directories are configured ones.
pub open spec fn levels_configured(stack: Levels, cfg: (Set<PathV>, Set<PathV>)) -> bool {
    forall|i: int| 0 <= i < stack.len() ==> (#[trigger] stack[i]).configured(cfg)
}

/// C13: `idx` is the first level (in registration order) that holds a copy, and that copy is `ino`.
pub open spec fn first_copy(stack: Levels, links: Map<PathV, InodeId>, key: Key, idx: int, ino: InodeId) -> bool {
    &&& 0 <= idx < stack.len()
    &&& stack[idx].lookup(links, key) == Some(ino)
    &&& forall|j: int| 0 <= j < idx ==> (#[trigger] stack[j]).lookup(links, key).is_none()
}

/// C14: the checker accepted `ino` against every copy held by the levels idx+1 .. upto.
pub open spec fn later_copies_accepted(stack: Levels, links: Map<PathV, InodeId>, key: Key, c: ConsistencyChecker, ino: InodeId, idx: int, upto: int) -> bool {
    forall|j: int| idx < j < upto && (#[trigger] stack[j]).lookup(links, key).is_some() ==> checker_accepts(c, ino, stack[j].lookup(links, key).unwrap())
}

impl ReadOnlyCache {
    pub closed spec fn levels(&self) -> Levels { self.stack@ }
    pub closed spec fn checker(&self) -> Option<ConsistencyChecker> { self.consistency_checker }
}
''')
    im = u.item('src/readonly.rs', ['impl ReadOnlyCache'])
    KEEP = {'get', 'touch', 'new'}
    dropped = im.drop_members_except(KEEP)
    u.dropped.append('readonly.rs: ReadOnlyCache members not under contract: ' + ', '.join(dropped))

    LOOKUP_FRAME = ('C15 C09:a-lookup-changes-nothing-but-access-times',
                    'final(w).atime_only(*old(w))')
    BAD = '(!first_byte_ok(str_bytes(key.name)) || str_bytes(key.name).contains(0x2fu8))'

    def stack_get_ensures(stack, checker):
        return [
            ('C02 C18:valid-on-every-exit', 'final(w).inv()'),
            ('', 'final(w).kept(*old(w)) && final(w).listed == old(w).listed && final(w).published == old(w).published'),
            LOOKUP_FRAME,
            ('C16:invalid-names-fail-with-invalid-input-and-touch-nothing',
             '%s.len() > 0 && !first_byte_ok(str_bytes(key.name)) ==> r.is_err() && err_kind(err_of(r)) == ErrorKind::InvalidInput && *final(w) == *old(w)' % stack),
            ('C13 C19 C01:the-first-copy-in-registration-order-is-returned-read-only-at-offset-zero',
             'r.is_ok() && r.unwrap().is_some() ==> !r.unwrap().unwrap().can_write() && r.unwrap().unwrap().offset() == 0 '
             '&& exists|idx: int| #[trigger] first_copy(%s, old(w).files, key, idx, r.unwrap().unwrap().ino()) '
             '&& (%s.is_none() ==> final(w).opens <= old(w).opens + 2 * (idx + 1)) '
             '&& (%s.is_some() ==> later_copies_accepted(%s, old(w).files, key, %s.unwrap(), r.unwrap().unwrap().ino(), idx, %s.len() as int))' % (stack, checker, checker, stack, checker, stack)),
            ('C13 C05 C18:a-miss-means-no-level-holds-a-copy',
             'r.is_ok() && r.unwrap().is_none() ==> forall|j: int| 0 <= j < %s.len() ==> (#[trigger] %s[j]).lookup(old(w).files, key).is_none()' % (stack, stack)),
            ('C16:success-on-a-non-empty-stack-means-the-name-is-a-valid-key', 'r.is_ok() && %s.len() > 0 ==> valid_key(str_bytes(key.name))' % stack),
            ('C01:a-hit-holds-bytes-some-writer-supplied-for-exactly-this-key',
             'r.is_ok() && r.unwrap().is_some() && levels_configured(%s, old(w).cfg()) ==> final(w).inodes.contains_key(r.unwrap().unwrap().ino()) '
             '&& final(w).supplied.contains((str_bytes(key.name), final(w).inodes[r.unwrap().unwrap().ino()].content))' % stack),
            ('C18 C05 C14 C06:error-is-an-invalid-name-a-real-fault-or-a-rejected-copy',
             'r.is_err() ==> %s || final(w).hard_faults > old(w).hard_faults || (%s.is_some() && exists|i: int, j: int| 0 <= i < j < %s.len() '
             '&& (#[trigger] %s[i]).lookup(old(w).files, key).is_some() && (#[trigger] %s[j]).lookup(old(w).files, key).is_some() '
             '&& !checker_accepts(%s.unwrap(), %s[i].lookup(old(w).files, key).unwrap(), %s[j].lookup(old(w).files, key).unwrap()))' % (REJ, checker, stack, stack, stack, checker, stack, stack)),
            ('C06 C20:at-most-two-opens-and-seven-calls-per-level', 'final(w).steps <= old(w).steps + 2 * (7 * %s.len()) && final(w).opens <= old(w).opens + 2 * %s.len()' % (stack, stack)),
        ]

    g = im.sub(['fn get'])
    g.replace("key : impl Into < Key < 'a > >", "key: Key<'a>", 'T11-into-identity')
    g.replace('key . into ( )', 'key', 'T11-into-identity')
    u.dropped.append("T11: `key: impl Into<Key<'a>>` / `key.into()` in the public shims are specialised to `Key<'a>` / `key` "
                     '(the only instantiation used inside the crate; `impl<T> From<T> for T` is the identity)')
    gs = u.under_contract(g, ['C13', 'C14', 'C15', 'C16', 'C05', 'C18', 'C19', 'C06', 'C20', 'C01', 'C11'])
    gs.air = 'readonly::ReadOnlyCache::get'
    gs.add_param(W)
    gs.add_arg('doit', TW, nth=-1)
    gs.contract(requires=[('', 'old(w).inv() && levels_wf(self.levels())')], ensures=stack_get_ensures('self.levels()', 'self.checker()'))
    d = u.under_contract(g.sub(['fn doit']), ['C13', 'C14', 'C15', 'C16', 'C05', 'C18', 'C19', 'C06', 'C20', 'C01', 'C11'])
    d.air = r'readonly::impl&%\d+::get::doit'
    d.add_param(W)
    d.replace('checker ( prev , & mut hit )', 'checker.call(prev, &mut hit)', 'T7-checker-call')
    d.contract(requires=[('', 'old(w).inv() && levels_wf(stack@)')], ensures=stack_get_ensures('stack@', '(*checker)'))
    # `for cache in stack.iter()` and `for cache in stack` are the same loop over a slice
    d.desugar_for(0, itvar='kw_it', next_args='', into_iter=d._find('in stack . iter ( )', count=True) == 0,
                  after_init='let ghost mut k: int = 0; let ghost mut idx: int = 0;',
                  after_next='proof { k = k + 1; let wk = *w; assert forall|fin: World| #[trigger] fin.atime_only(wk) implies fin.atime_only(*old(w)) by { lemma_atime_only_trans(*old(w), wk, fin); } } ')
    d.thread(['cache . get', '. seek'])
    REM = 'vstd::std_specs::iter::IteratorSpec::remaining(&kw_it)'
    d.loop_contract(0, invariant=[
        ('', 'old(w).inv() && w.inv() && levels_wf(stack@) && w.kept(*old(w)) && w.listed == old(w).listed && w.published == old(w).published'),
        ('', '0 <= k <= stack@.len() && vstd::std_specs::iter::IteratorSpec::obeys_prophetic_iter_laws(&kw_it) && %s.len() == stack@.len() - k '
             '&& forall|j: int| 0 <= j < %s.len() ==> #[trigger] %s[j] == &stack@[k + j]' % (REM, REM, REM)),
        ('C15 C09:a-lookup-changes-nothing-but-access-times',
         'w.atime_only(*old(w)) && (k == 0 ==> *w == *old(w))'),
        ('C13:nothing-found-so-far-means-no-level-so-far-holds-a-copy',
         'ret.is_none() ==> forall|j: int| 0 <= j < k ==> (#[trigger] stack@[j]).lookup(old(w).files, key).is_none()'),
        ('C13 C14:the-candidate-is-the-first-copy-accepted-against-every-later-copy-seen-so-far',
         'ret.is_some() ==> checker.is_some() && 0 <= idx < k && first_copy(stack@, old(w).files, key, idx, ret.unwrap().ino()) '
         '&& later_copies_accepted(stack@, old(w).files, key, checker.unwrap(), ret.unwrap().ino(), idx, k)'),
        ('C19 C01 C13:the-candidate-is-read-only-and-rewound-after-every-comparison',
         'ret.is_some() ==> !ret.unwrap().can_write() && ret.unwrap().offset() == 0'),
        ('C16:an-invalid-name-never-gets-past-the-first-level', 'k > 0 ==> first_byte_ok(str_bytes(key.name)) && valid_key(str_bytes(key.name))'),
        ('C01:the-candidate-holds-bytes-supplied-for-this-key',
         'ret.is_some() && levels_configured(stack@, old(w).cfg()) ==> w.inodes.contains_key(ret.unwrap().ino()) && w.supplied.contains((str_bytes(key.name), w.inodes[ret.unwrap().ino()].content))'),
        ('C06 C20:at-most-two-opens-and-seven-calls-per-level', 'w.steps <= old(w).steps + 2 * (7 * k) && w.opens <= old(w).opens + 2 * k'),
    ], ensures=[('', 'k == stack@.len()')], decreases='stack@.len() - k')
    d.insert_after('let mut ret', ': Option<File>')
    d.insert_before('return Ok ( Some ( hit ) )', '{ proof { assert(first_copy(stack@, old(w).files, key, k - 1, hit.ino())); } ')
    d.insert_after('return Ok ( Some ( hit ) )', ' }')
    d.insert_before('ret = Some ( hit )', '{ proof { idx = k - 1; } ')
    d.insert_after('ret = Some ( hit )', ' }')
    # touch
    def stack_touch_ensures(stack):
        return [
            ('C02 C18:valid-on-every-exit', 'final(w).inv()'),
            ('', 'final(w).kept(*old(w)) && final(w).listed == old(w).listed && final(w).published == old(w).published'),
            LOOKUP_FRAME,
            ('C16:invalid-names-fail-with-invalid-input-and-touch-nothing',
             '%s.len() > 0 && !first_byte_ok(str_bytes(key.name)) ==> r.is_err() && err_kind(err_of(r)) == ErrorKind::InvalidInput && *final(w) == *old(w)' % stack),
            ('C13 C09:the-first-copy-in-registration-order-is-the-one-marked',
             'r == Ok::<bool, Error>(true) ==> exists|idx: int| 0 <= idx < %s.len() && (#[trigger] %s[idx]).lookup(old(w).files, key).is_some() '
             '&& final(w).inodes[%s[idx].lookup(old(w).files, key).unwrap()].atime >= final(w).inodes[%s[idx].lookup(old(w).files, key).unwrap()].mtime '
             '&& forall|j: int| 0 <= j < idx ==> (#[trigger] %s[j]).lookup(old(w).files, key).is_none()' % (stack, stack, stack, stack, stack)),
            ('C13 C05 C18:false-means-no-level-holds-a-copy',
             'r == Ok::<bool, Error>(false) ==> forall|j: int| 0 <= j < %s.len() ==> (#[trigger] %s[j]).lookup(old(w).files, key).is_none()' % (stack, stack)),
            ('C18 C05 C06:error-is-an-invalid-name-or-a-real-fault', 'r.is_err() ==> %s || final(w).hard_faults > old(w).hard_faults' % REJ),
            ('C06 C20:at-most-two-calls-per-level', 'final(w).steps <= old(w).steps + 2 * (2 * %s.len()) && final(w).opens == old(w).opens' % stack),
        ]

    t = im.sub(['fn touch'])
    t.replace("key : impl Into < Key < 'a > >", "key: Key<'a>", 'T11-into-identity')
    t.replace('key . into ( )', 'key', 'T11-into-identity')
    ts = u.under_contract(t, ['C13', 'C15', 'C16', 'C05', 'C18', 'C09', 'C06', 'C20'])
    ts.air = 'readonly::ReadOnlyCache::touch'
    ts.add_param(W)
    ts.add_arg('doit', TW, nth=-1)
    ts.contract(requires=[('', 'old(w).inv() && levels_wf(self.levels())')], ensures=stack_touch_ensures('self.levels()'))
    td = u.under_contract(t.sub(['fn doit']), ['C13', 'C15', 'C16', 'C05', 'C18', 'C09', 'C06', 'C20'])
    td.air = r'readonly::impl&%\d+::touch::doit'
    td.add_param(W)
    td.contract(requires=[('', 'old(w).inv() && levels_wf(stack@)')], ensures=stack_touch_ensures('stack@'))
    td.desugar_for(0, itvar='kw_it', next_args='', into_iter=td._find('in stack . iter ( )', count=True) == 0,
                   after_init='let ghost mut k: int = 0;',
                   after_next='proof { k = k + 1; let wk = *w; assert forall|fin: World| #[trigger] fin.atime_only(wk) implies fin.atime_only(*old(w)) by { lemma_atime_only_trans(*old(w), wk, fin); } } ')
    td.thread(['cache . touch'])
    td.loop_contract(0, invariant=[
        ('', 'old(w).inv() && w.inv() && levels_wf(stack@) && w.kept(*old(w)) && w.listed == old(w).listed && w.published == old(w).published'),
        ('', '0 <= k <= stack@.len() && vstd::std_specs::iter::IteratorSpec::obeys_prophetic_iter_laws(&kw_it) && %s.len() == stack@.len() - k '
             '&& forall|j: int| 0 <= j < %s.len() ==> #[trigger] %s[j] == &stack@[k + j]' % (REM, REM, REM)),
        ('C15 C09:a-lookup-changes-nothing-but-access-times',
         'w.atime_only(*old(w)) && (k == 0 ==> *w == *old(w))'),
        ('C13:no-level-so-far-holds-a-copy', 'forall|j: int| 0 <= j < k ==> (#[trigger] stack@[j]).lookup(old(w).files, key).is_none()'),
        ('C16:an-invalid-name-never-gets-past-the-first-level', 'k > 0 ==> first_byte_ok(str_bytes(key.name))'),
        ('C06 C20:at-most-two-calls-per-level', 'w.steps <= old(w).steps + 2 * (2 * k) && w.opens == old(w).opens'),
    ], ensures=[('', 'k == stack@.len()')], decreases='stack@.len() - k')
    nw = u.under_contract(im.sub(['fn new']), ['C14', 'C13'])
    nw.air = 'readonly::ReadOnlyCache::new'
    nw.contract(ensures=[('C14 C13:levels-in-registration-order-and-the-given-checker', 'r.levels() == stack@ && r.checker() == consistency_checker')])
    weave_builders_readonly(u)
    u.text('}\n')


WRITE_SPECS = '''
    /// Which copy (inode) the write cache holds for `key`, as a function of the link map only.
    spec fn lookup(&self, links: Map<PathV, InodeId>, key: Key) -> Option<InodeId>;

    /// Handle well-formedness (established by the constructors).
    spec fn level_wf(&self) -> bool;

    /// The directories of this cache are configured read-write cache directories that no read-only root overlaps.
    spec fn rw(&self, cfg: (Set<PathV>, Set<PathV>)) -> bool;

    /// Everything a write changed lies inside this cache's directories; new links only under the key's own entry path(s).
    spec fn wrote(&self, old: World, fin: World, key: Key, value: PathV) -> bool;

    /// `d` is the `.kismet_temp` subdirectory of one of this cache's directories.
    spec fn temp_ok(&self, w: World, d: PathV) -> bool;
'''


def weave_stack(u, u4):
    from weave import Repl
    u.text('pub mod stack {\n' + u4.MOD_HEAD + 'use crate::std::fs::File;\n#[allow(unused_imports)]\nuse crate::benign_error::is_absent_file_error;\nuse crate::plain::Cache as PlainCache;\nuse crate::sharded::Cache as ShardedCache;\n'
           'use crate::Key;\nuse crate::Arc;\nuse crate::cache_dir::CacheDir;\nuse crate::cache_dir::*;\nuse crate::sharded::*;\nuse crate::readonly::*;\nuse crate::readonly::ReadOnlyCache;\n'
           'use crate::ConsistencyChecker;\nuse crate::DocumentedPanic;\n')
    BAD = '(!first_byte_ok(str_bytes(key.name)) || str_bytes(key.name).contains(0x2fu8))'
    t = u.item('src/stack.rs', ['trait FullCache'])
    t.insert_before('trait FullCache', 'pub ')   # T9: visibility only
    a, _ = t._find('trait FullCache :')
    o, _ = t.body()
    t.repls.append(Repl(t.ct[a + 2][2], t.ct[o - 1][3], '', 'T7-marker-bounds'))
    g = t.sub(['fn get'])
    g.insert_before_tok(g.fn_kw(), WRITE_SPECS.strip() + '\n\n    ')
    g.add_param(W)
    g.contract(requires=[('', 'old(w).inv() && self.level_wf()')], ensures=level_get_ensures('self.lookup(old(w).files, key)', 'self.rw(old(w).cfg())'))
    th = t.sub(['fn touch'])
    th.add_param(W)
    th.contract(requires=[('', 'old(w).inv() && self.level_wf()')], ensures=level_touch_ensures('self.lookup(old(w).files, key)'))
    td = t.sub(['fn temp_dir'])
    td.add_param(W)
    TEMP_ENS = [
        ('C02 C18:valid-on-every-exit', 'final(w).inv()'), ('', 'final(w).kept_nc(*old(w)) && final(w).published == old(w).published && final(w).inodes == old(w).inodes'),
        ('C02 C16:temp-dir-is-a-kismet-temp-subdirectory-of-this-cache', 'r.is_ok() ==> self.temp_ok(*final(w), cowv(r.unwrap())) && final(w).dirs.contains(cowv(r.unwrap()))'),
        ('C17 C15:asking-for-a-temp-dir-creates-directories-and-drops-stale-temporary-files-only',
         '(forall|p: PathV| #[trigger] final(w).files.contains_key(p) ==> old(w).files.contains_key(p) && final(w).files[p] == old(w).files[p]) '
         '&& (forall|d: PathV| #[trigger] old(w).dirs.contains(d) ==> final(w).dirs.contains(d)) '
         '&& (forall|p: PathV| old(w).files.contains_key(p) && !(#[trigger] final(w).files.contains_key(p)) ==> p.len() > 0 && parent(p).len() > 0 && base_name(parent(p)) == temp_name())'),
        ('C18:error-is-a-real-fault', 'r.is_err() ==> final(w).hard_faults > old(w).hard_faults'),
        ('C02 C13:asking-for-a-temp-dir-changes-no-lookup', 'forall|k: Key| #[trigger] self.lookup(final(w).files, k) == self.lookup(old(w).files, k)'),
        ('C02 C13 C01:files-inside-the-temp-dir-are-invisible-to-lookups',
         'r.is_ok() ==> forall|links: Map<PathV, InodeId>, n: Seq<u8>, i: InodeId, k: Key| #[trigger] self.lookup(links.insert(child(cowv(r.unwrap()), n), i), k) == self.lookup(links, k)'),
        ('C02 C16 C15:the-temp-dir-is-a-kismet-temp-directory-outside-every-read-only-root',
         'r.is_ok() ==> final(w).is_temp_dir(cowv(r.unwrap())) && !final(w).under_ro(cowv(r.unwrap())) && forall|n: Seq<u8>| !final(w).under_ro(#[trigger] child(cowv(r.unwrap()), n))'),
    ]
    td.contract(requires=[('', 'old(w).inv() && self.level_wf() && self.rw(old(w).cfg())')], ensures=TEMP_ENS)

    def write_ens(op='set'):
        return [
            ('C18 C05 C06:without-a-real-fault-a-failed-write-published-nothing', 'r.is_err() && final(w).hard_faults == old(w).hard_faults ==> final(w).published == old(w).published'),
            ('C01 C03 C19:a-write-never-changes-the-bytes-of-any-file',
             'bytes_kept(*old(w), *final(w))'),
            ('C13 C11 C18:success-means-a-publication-happened' + ('' if op == 'set' else '-unless-the-key-was-already-bound'),
             'r.is_ok() ==> final(w).published > old(w).published' + ('' if op == 'set' else ' || self.lookup(old(w).files, key).is_some()')),
            ] + ([] if op == 'set' else [('C11 C04:put-never-overwrites-an-existing-entry',
                                         'r.is_ok() && final(w).hard_faults == old(w).hard_faults && final(w).listed == old(w).listed && self.lookup(old(w).files, key).is_some() ==> final(w).published == old(w).published')]) + [
            ('C02 C18:valid-on-every-exit', 'final(w).inv()'), ('', 'final(w).kept_nc(*old(w))'),
            ('C16:invalid-names-fail-with-invalid-input-and-modify-nothing',
             '%s ==> r.is_err() && err_kind(err_of(r)) == ErrorKind::InvalidInput && final(w).same_fs(*old(w)) && final(w).counter == old(w).counter && final(w).published == old(w).published' % BAD),
            ('C11 C18:success-consumes-the-source', 'r.is_ok() ==> old(w).files.contains_key(pv(value)) && !final(w).files.contains_key(pv(value))'),
            ('C15 C16 C17 C12:everything-that-changes-is-inside-this-cache', 'self.wrote(*old(w), *final(w), key, pv(value))'),
            ('C18 C05 C06:error-is-explained', 'r.is_err() ==> %s || final(w).hard_faults > old(w).hard_faults || !final(w).files.contains_key(pv(value))' % REJ),
        ]
    for op in ('set', 'put'):
        m = t.sub(['fn ' + op])
        m.add_param(W)
        m.contract(requires=[('', 'old(w).inv() && self.level_wf() && self.rw(old(w).cfg())'),
                             ('C01 C03:publishing-needs-a-private-finished-flushed-file-supplied-for-this-key', 'valid_key(str_bytes(key.name)) ==> old(w).value_ok(pv(value), str_bytes(key.name), old(w).must_sync)')],
                   ensures=write_ens(op))

    RW_PLAIN = ('(self.spec_temp() == child(self.spec_base(), temp_name()) && cfg.0.contains(self.spec_base()) && !under_ro_of(cfg.1, self.spec_base()) '
                '&& !under_ro_of(cfg.1, self.spec_temp()) && (forall|n: Seq<u8>| !under_ro_of(cfg.1, #[trigger] child(self.spec_base(), n))) '
                '&& (forall|n: Seq<u8>| !under_ro_of(cfg.1, #[trigger] child(self.spec_temp(), n))))')
    S1 = 'shard_ids_spec(key.hash, key.secondary_hash, self.spec_n()).0'
    S2 = 'shard_ids_spec(key.hash, key.secondary_hash, self.spec_n()).1'
    IMPL = {
        'PlainCache': dict(
            lookup='plain_lookup(links, self.spec_base(), str_bytes(key.name))', wf='self.wf()', rw=RW_PLAIN,
            ready='value_ready(w, value, self.spec_base(), str_bytes(key.name))',
            wrote='write_frame(old, fin, self.spec_base(), str_bytes(key.name), value)',
            temp_ok='d == self.spec_temp()',
            ready_proof='proof { if valid_key(str_bytes(key.name)) { lemma_value_ready(*old(w), pv(value), self.spec_base(), str_bytes(key.name)); } }'),
        'ShardedCache': dict(
            lookup='sharded_lookup(links, self.spec_root(), self.spec_n(), key)', wf='self.wf()', rw='self.rw_cfg(cfg)',
            ready='value_ready(w, value, shard_dir_of(self.spec_root(), %s as usize), str_bytes(key.name)) && value_ready(w, value, shard_dir_of(self.spec_root(), %s as usize), str_bytes(key.name))' % (S1, S2),
            wrote='sharded_frame(old, fin, self.spec_root(), self.spec_n(), str_bytes(key.name), value) '
                  '&& forall|p: PathV| #[trigger] fin.files.contains_key(p) && !old.files.contains_key(p) ==> p == entry_in(self.spec_root(), %s, str_bytes(key.name)) || p == entry_in(self.spec_root(), %s, str_bytes(key.name))' % (S1, S2),
            temp_ok='exists|i: usize| i < self.spec_n() && d == #[trigger] child(shard_dir_of(self.spec_root(), i), temp_name())',
            ready_proof='proof { if valid_key(str_bytes(key.name)) { lemma_shard_ids(key.hash, key.secondary_hash, self.spec_n()); '
                        'lemma_shard_rw(*self, *old(w), ' + S1 + ' as usize); lemma_shard_rw(*self, *old(w), ' + S2 + ' as usize); '
                        'lemma_value_ready(*old(w), pv(value), shard_dir_of(self.spec_root(), %s as usize), str_bytes(key.name)); '
                        'lemma_value_ready(*old(w), pv(value), shard_dir_of(self.spec_root(), %s as usize), str_bytes(key.name)); } }' % (S1, S2)),
    }
    for ty, sp in IMPL.items():
        im = u.item('src/stack.rs', ['impl FullCache for ' + ty])
        first = True
        for name in ('get', 'temp_dir', 'set', 'put', 'touch'):
            m = u.under_contract(im.sub(['fn ' + name]), ['C13', 'C11', 'C15', 'C16', 'C18', 'C05', 'C02', 'C03', 'C01', 'C12', 'C17'])
            m.air = r'%s::Cache::%s@stack' % ({'PlainCache': 'plain', 'ShardedCache': 'sharded'}[ty], name)
            m.probe_ok = False
            if first:
                m.insert_before_tok(m.fn_kw(),
                                    'open spec fn lookup(&self, links: Map<PathV, InodeId>, key: Key) -> Option<InodeId> { %(lookup)s }\n\n'
                                    '    open spec fn level_wf(&self) -> bool { %(wf)s }\n\n'
                                    '    open spec fn rw(&self, cfg: (Set<PathV>, Set<PathV>)) -> bool { %(rw)s }\n\n'
                                    '    open spec fn wrote(&self, old: World, fin: World, key: Key, value: PathV) -> bool { %(wrote)s }\n\n'
                                    '    open spec fn temp_ok(&self, w: World, d: PathV) -> bool { %(temp_ok)s }\n\n    ' % sp)
                first = False
            m.add_param(W)
            m.add_arg('%s :: %s' % (ty, name), TW)
            if name in ('set', 'put'):
                m.body_start(sp['ready_proof'])
            if name == 'temp_dir' and ty == 'PlainCache':
                m.replace('_key : Key', 'key: Key', 'T12-unused-param-name')
                m.body_start('proof { lemma_plain_temp_blind(self.spec_base(), self.spec_temp()); lemma_child(self.spec_base(), temp_name()); }')
    u.dropped.append('T12: the unused parameter `_key` of `impl FullCache for PlainCache::temp_dir` is spelled `key` (parameter names must match the trait contract)')
    # ---- struct Cache, get::doit, touch::doit ------------------------------------------------------
    st = u.item('src/stack.rs', ['struct Cache'])
    st.drop_attrs()
    st.drop_inner_attrs('# [ derivative ( Debug = "ignore" ) ]')
    u.dropped.append('stack.rs: #[derive(Clone, Derivative)] on Cache; CacheBuilder, Default impls and the generic public shims '
                     'Cache::{get, touch, set, put, set_temp_file, put_temp_file} (one forwarding call each to the `doit` under contract)')
    u.text('''
impl Cache {
    pub closed spec fn writer(&self) -> Option<Arc<dyn FullCache>> { self.write_side }
    pub closed spec fn checker(&self) -> Option<ConsistencyChecker> { self.consistency_checker }
    pub closed spec fn readers(&self) -> ReadOnlyCache { self.read_side }
    pub closed spec fn syncs(&self) -> bool { self.auto_sync }
}

/// Flushing (and the open that precedes it) keeps the hand-over condition and adds `synced`.
pub proof fn lemma_value_ok_after_sync(old: World, fin: World, value: PathV, name: Seq<u8>)
    requires
        old.value_ok(value, name, false),
        fin.kept(old),
        fin.files == old.files,
        fin.supplied == old.supplied || old.supplied.subset_of(fin.supplied),
        forall|i: InodeId| old.inodes.contains_key(i) ==> fin.inodes.contains_key(i) && #[trigger] fin.inodes[i] == (Inode { atime: fin.inodes[i].atime, synced: fin.inodes[i].synced, ..old.inodes[i] }),
        old.env_ok(),
        old.files.contains_key(value) && fin.must_sync ==> fin.inodes[old.files[value]].synced,
    ensures
        fin.value_ok(value, name, fin.must_sync),
{
    if old.files.contains_key(value) {
        assert(old.inodes.contains_key(old.files[value]));
    }
}

/// Finalizing a temp file (mode 0444, flush when asked) keeps the hand-over condition and adds `synced`.
pub proof fn lemma_value_ok_after_finalize(old: World, fin: World, value: PathV, name: Seq<u8>, sync: bool)
    requires
        old.value_ok(value, name, false),
        fin.kept(old),
        fin.files == old.files,
        old.files.contains_key(value),
        old.env_ok(),
        fin.only_inode_changed(old, old.files[value], Inode { writable: false, mode: 0o444, synced: sync || old.inode_at(value).synced, ..old.inode_at(value) }),
        fin.must_sync == sync,
    ensures
        fin.value_ok(value, name, fin.must_sync),
{
    assert(old.inodes.contains_key(old.files[value]));
}

/// No read-only level holds a copy.
pub open spec fn no_read_copy(rs: ReadOnlyCache, links: Map<PathV, InodeId>, key: Key) -> bool {
    forall|j: int| 0 <= j < rs.levels().len() ==> (#[trigger] rs.levels()[j]).lookup(links, key).is_none()
}

/// C14 for a write-side hit `x`: the configured checker accepted it against the first read-only copy, and that
/// copy against every later read-only copy.
pub open spec fn read_copies_accepted(rs: ReadOnlyCache, links: Map<PathV, InodeId>, key: Key, c: ConsistencyChecker, x: InodeId) -> bool {
    forall|idx: int, y: InodeId| #[trigger] first_copy(rs.levels(), links, key, idx, y) ==> checker_accepts(c, x, y) && (rs.checker().is_some() ==> later_copies_accepted(
        rs.levels(),
        links,
        key,
        rs.checker().unwrap(),
        y,
        idx,
        rs.levels().len() as int,
    ))
}
''')
    # The public API of Cache: each generic shim (specialised by T11) and its nested `doit`, both under contract.
    imp = u.item('src/stack.rs', ['impl Cache'])
    imp.drop_members_except({'get', 'touch', 'set', 'put', 'set_temp_file', 'put_temp_file'})
    u.dropped.append("T11: `value: impl AsRef<Path>` / `value.as_ref()` in Cache::{set, put} are specialised to `&Path` / `value` (identity instantiation)")
    API_PROPS = ['C13', 'C14', 'C15', 'C16', 'C05', 'C18', 'C19', 'C01', 'C11', 'C06', 'C20', 'C09', 'C03', 'C02']

    def specialise(sh):
        sh.replace("key : impl Into < Key < 'a > >", "key: Key<'a>", 'T11-into-identity')
        sh.replace('key . into ( )', 'key', 'T11-into-identity')
        if sh._find('value : impl AsRef < Path >', count=True):
            sh.replace('value : impl AsRef < Path >', 'value: &Path', 'T11-into-identity')
            sh.replace('value . as_ref ( )', 'value', 'T11-into-identity')
        if sh._find('self . write_side . as_ref ( ) . map ( AsRef :: as_ref )', count=True):
            sh.replace('self . write_side . as_ref ( ) . map ( AsRef :: as_ref )', 'opt_arc_as_ref(&self.write_side)', 'T2-rebind')
        sh.add_param(W)
        sh.add_arg('doit', TW, nth=-1)

    def get_contract(wopt, rs, ck_some, ck_val):
        ws = wopt + '.unwrap()'
        return dict(
            requires=[('', 'old(w).inv() && levels_wf(%s.levels()) && (%s.is_some() ==> %s.level_wf())' % (rs, wopt, ws))],
            ensures=[
                ('C02 C18:valid-on-every-exit', 'final(w).inv()'),
                ('', 'final(w).kept(*old(w)) && final(w).listed == old(w).listed && final(w).published == old(w).published'),
                ('C15 C09:a-lookup-changes-nothing-but-access-times', 'final(w).atime_only(*old(w))'),
                ('C16:invalid-names-fail-with-invalid-input-and-touch-nothing',
                 '(%s.is_some() || %s.levels().len() > 0) && !first_byte_ok(str_bytes(key.name)) ==> r.is_err() && err_kind(err_of(r)) == ErrorKind::InvalidInput && *final(w) == *old(w)' % (wopt, rs)),
                ('C13 C19 C01:the-write-cache-is-consulted-first-and-its-copy-returned-read-only-at-offset-zero',
                 'r.is_ok() && %s.is_some() && %s.lookup(old(w).files, key).is_some() ==> r.unwrap().is_some() && r.unwrap().unwrap().ino() == %s.lookup(old(w).files, key).unwrap() '
                 '&& !r.unwrap().unwrap().can_write() && r.unwrap().unwrap().offset() == 0' % (wopt, ws, ws)),
                ('C14:a-write-side-hit-is-checked-against-every-read-only-copy',
                 'r.is_ok() && %s.is_some() && %s.lookup(old(w).files, key).is_some() && %s ==> read_copies_accepted(%s, old(w).files, key, %s, %s.lookup(old(w).files, key).unwrap())' % (wopt, ws, ck_some, rs, ck_val, ws)),
                ('C13 C14 C19 C01:otherwise-the-first-read-only-copy-is-returned',
                 'r.is_ok() && r.unwrap().is_some() && !(%s.is_some() && %s.lookup(old(w).files, key).is_some()) ==> !r.unwrap().unwrap().can_write() && r.unwrap().unwrap().offset() == 0 '
                 '&& exists|idx: int| #[trigger] first_copy(%s.levels(), old(w).files, key, idx, r.unwrap().unwrap().ino()) '
                 '&& (%s.checker().is_some() ==> later_copies_accepted(%s.levels(), old(w).files, key, %s.checker().unwrap(), r.unwrap().unwrap().ino(), idx, %s.levels().len() as int))' % (wopt, ws, rs, rs, rs, rs, rs)),
                ('C13 C05 C18:a-miss-means-no-copy-anywhere',
                 'r.is_ok() && r.unwrap().is_none() ==> no_read_copy(%s, old(w).files, key) && (%s.is_some() ==> %s.lookup(old(w).files, key).is_none())' % (rs, wopt, ws)),
                ('C06 C20:at-most-two-opens-per-directory', 'final(w).opens <= old(w).opens + 2 + 2 * %s.levels().len()' % rs),
                ('C16:success-means-the-name-is-a-valid-key', 'r.is_ok() && (%s.is_some() || %s.levels().len() > 0) ==> valid_key(str_bytes(key.name))' % (wopt, rs)),
                ('C01:a-hit-holds-bytes-some-writer-supplied-for-exactly-this-key',
                 'r.is_ok() && r.unwrap().is_some() && (%s.is_some() ==> %s.rw(old(w).cfg())) && levels_configured(%s.levels(), old(w).cfg()) ==> '
                 'final(w).inodes.contains_key(r.unwrap().unwrap().ino()) && final(w).supplied.contains((str_bytes(key.name), final(w).inodes[r.unwrap().unwrap().ino()].content))' % (wopt, ws, rs)),
            ])

    sh = u.under_contract(imp.sub(['fn get']), API_PROPS)
    sh.air = 'stack::Cache::get'
    specialise(sh)
    sh.contract(**get_contract('self.writer()', 'self.readers()', 'self.checker().is_some()', 'self.checker().unwrap()'))
    d = u.under_contract(sh.sub(['fn doit']), API_PROPS)
    d.air = r'stack::impl&%\d+::get::doit'
    d.add_param(W)
    d.replace('checker ( & mut ret , & mut read_hit )', 'checker.call(&mut ret, &mut read_hit)', 'T7-checker-call')
    d.thread(['write . get', 'read_side . get', '. seek'])
    d.contract(**get_contract('write_side', '(*read_side)', 'checker.is_some()', '*checker.unwrap()'))
    d.insert_after('if let Some ( write ) = write_side {',
                   '\n                let ghost w0 = *w;\n                proof { assert forall|a: World, b: World| #[trigger] a.atime_only(w0) && #[trigger] b.atime_only(a) implies b.atime_only(w0) by { lemma_atime_only_trans(w0, a, b); } }')

    def touch_contract(wopt, rs):
        ws = wopt + '.unwrap()'
        return dict(
            requires=[('', 'old(w).inv() && levels_wf(%s.levels()) && (%s.is_some() ==> %s.level_wf())' % (rs, wopt, ws))],
            ensures=[
                ('C02 C18:valid-on-every-exit', 'final(w).inv()'),
                ('', 'final(w).kept(*old(w)) && final(w).listed == old(w).listed && final(w).published == old(w).published'),
                ('C15 C09:a-touch-changes-nothing-but-access-times', 'final(w).atime_only(*old(w))'),
                ('C13 C09:the-write-cache-copy-is-marked-first',
                 'r.is_ok() && %s.is_some() && %s.lookup(old(w).files, key).is_some() ==> r.unwrap() '
                 '&& final(w).inodes[%s.lookup(old(w).files, key).unwrap()].atime >= final(w).inodes[%s.lookup(old(w).files, key).unwrap()].mtime' % (wopt, ws, ws, ws)),
                ('C13 C05 C18:false-means-no-copy-anywhere',
                 'r == Ok::<bool, Error>(false) ==> no_read_copy(%s, old(w).files, key) && (%s.is_some() ==> %s.lookup(old(w).files, key).is_none())' % (rs, wopt, ws)),
                ('C18 C05 C06:error-is-an-invalid-name-or-a-real-fault', 'r.is_err() ==> %s || final(w).hard_faults > old(w).hard_faults' % REJ),
            ])

    ts = u.under_contract(imp.sub(['fn touch']), API_PROPS)
    ts.air = 'stack::Cache::touch'
    specialise(ts)
    ts.contract(**touch_contract('self.writer()', 'self.readers()'))
    td = u.under_contract(ts.sub(['fn doit']), API_PROPS)
    td.air = r'stack::impl&%\d+::touch::doit'
    td.add_param(W)
    td.thread(['write . touch', 'read_side . touch'])
    td.contract(**touch_contract('write_side', '(*read_side)'))
    td.insert_after('if let Some ( write ) = write_side {',
                    '\n                let ghost w0 = *w;\n                proof { assert forall|a: World, b: World| #[trigger] a.atime_only(w0) && #[trigger] b.atime_only(a) implies b.atime_only(w0) by { lemma_atime_only_trans(w0, a, b); } }')
    # ---- publishing helpers (C03 C19) -------------------------------------------------------------
    u.text('use crate::tempfile;\nuse crate::tempfile::NamedTempFile;\n')
    INV = ('C02 C18:valid-on-every-exit', 'final(w).inv()')
    rc = u.under_contract(u.item('src/stack.rs', ['fn rc_to_error']), ['C18'])
    rc.air = 'stack::rc_to_error'
    rc.replace('Error :: last_os_error', 'io_last_os_error', 'T2-rebind')
    rc.contract(ensures=[('C18:negative-return-codes-are-errors', 'r.is_ok() == (rc >= 0)')])

    FIN_ENS = [
        INV, ('', 'final(w).kept(*old(w)) && final(w).listed == old(w).listed && final(w).published == old(w).published && final(w).now == old(w).now'),
        ('C19 C03:finalized-file-is-mode-0444-and-flushed-when-asked',
         'r.is_ok() ==> r.unwrap().pathv() == %(t)s.pathv() && final(w).only_inode_changed(*old(w), %(t)s.ino(), '
         'Inode { writable: false, mode: 0o444, synced: %(sync)s || old(w).inodes[%(t)s.ino()].synced, ..old(w).inodes[%(t)s.ino()] })'),
        ('C03 C18:a-failed-chmod-flush-or-close-is-reported', 'r.is_err() ==> final(w).hard_faults > old(w).hard_faults || %(noworld)s'),
        ('C15 C02:finalizing-touches-only-that-inode',
         'final(w).files == old(w).files && final(w).dirs == old(w).dirs && forall|i: InodeId| i != %(t)s.ino() && old(w).inodes.contains_key(i) ==> #[trigger] final(w).inodes[i] == old(w).inodes[i]'),
        ('C03 C19 C01:content-is-never-touched-by-finalization',
         'final(w).inodes.contains_key(%(t)s.ino()) && final(w).inodes[%(t)s.ino()].content == old(w).inodes[%(t)s.ino()].content && bytes_kept(*old(w), *final(w))'),
        ('C06 C20:at-most-three-filesystem-calls', 'final(w).steps <= old(w).steps + 2 * (3) && final(w).opens == old(w).opens'),
    ]
    ft = u.under_contract(u.item('src/stack.rs', ['fn finalize_tempfile']), ['C03', 'C19', 'C18', 'C02', 'C15'])
    ft.air = r'stack::finalize_tempfile(::(fix_tempfile_permissions|close))?'
    ft.add_param(W)
    NOT_RO = ('C15:the-file-being-finalized-is-not-a-key-named-file-of-a-read-only-cache', 'old(w).not_ro_linked(%s.ino())')
    ft.contract(requires=[('', 'old(w).inv() && old(w).inodes.contains_key(tempfile.ino())'), (NOT_RO[0], NOT_RO[1] % 'tempfile')],
                ensures=[(l, t % dict(t='tempfile', sync='sync', noworld='false')) for (l, t) in FIN_ENS])
    fx = ft.sub(['fn fix_tempfile_permissions'])
    fx.add_param(W)
    fx.contract(requires=[('', 'old(w).inv() && old(w).inodes.contains_key(file.ino())'), (NOT_RO[0], NOT_RO[1] % 'file')],
                ensures=[INV, ('', 'final(w).kept(*old(w)) && final(w).listed == old(w).listed && final(w).published == old(w).published && final(w).now == old(w).now'),
                         ('C19:mode-is-forced-to-0444-whatever-the-umask',
                          'r.is_ok() ==> final(w).only_inode_changed(*old(w), file.ino(), Inode { writable: false, mode: 0o444, ..old(w).inodes[file.ino()] })'),
                         ('C18:error-is-a-real-fault', 'r.is_err() ==> final(w).same_fs(*old(w)) && final(w).hard_faults > old(w).hard_faults'),
                         ('', 'final(w).steps <= old(w).steps + 2 * (1) && final(w).opens == old(w).opens')])
    fx.body_start('proof { assert(0o444u32 & 0o222u32 == 0) by (bit_vector); }')
    cl = ft.sub(['fn close'])
    cl.replace('unsafe {', '{', 'T13-unsafe-block')
    cl.add_param(W)
    cl.contract(requires=[('', 'old(w).inv()')],
                ensures=[INV, ('', 'final(w).same_fs(*old(w)) && final(w).kept(*old(w)) && final(w).listed == old(w).listed && final(w).published == old(w).published && final(w).now == old(w).now'),
                         ('C18:a-failed-close-is-reported', 'r.is_err() ==> final(w).hard_faults > old(w).hard_faults'),
                         ('', 'final(w).steps <= old(w).steps + 2 * (1) && final(w).opens == old(w).opens && (r.is_ok() ==> final(w).hard_faults == old(w).hard_faults)')])
    cl.thread(['libc :: close'])
    u.dropped.append('T13: the `unsafe { libc::close(..) }` block in finalize_tempfile::close loses its `unsafe` keyword (the call is rebound to a safe stand-in)')

    im = u.item('src/stack.rs', ['impl Cache'])
    KEEPM = {'finalize_tempfile', 'maybe_sync_path', 'set_impl', 'put_impl'}
    dropped = im.drop_members_except(KEEPM)
    cf = u.under_contract(im.sub(['fn finalize_tempfile']), ['C03', 'C19', 'C18', 'C02', 'C15'])
    cf.drop_attrs()
    cf.air = 'stack::Cache::finalize_tempfile'
    cf.add_param(W)
    cf.contract(requires=[('', 'old(w).inv() && old(w).inodes.contains_key(file.ino())'), (NOT_RO[0], NOT_RO[1] % 'file')],
                ensures=[(l, t % dict(t='file', sync='self.syncs()', noworld='false')) for (l, t) in FIN_ENS])
    ms = u.under_contract(im.sub(['fn maybe_sync_path']), ['C03', 'C18', 'C15', 'C05'])
    ms.air = 'stack::Cache::maybe_sync_path'
    ms.add_param(W)
    ms.replace('. expect ( "auto_sync failed, and failure semantics are unclear for fsync" )',
               '.expect_or_documented_panic("auto_sync failed, and failure semantics are unclear for fsync")', 'T2-documented-panic')
    u.dropped.append('T2 (documented panic): `.expect("auto_sync failed, ...")` in Cache::maybe_sync_path is rebound to DocumentedPanic::expect_or_documented_panic, '
                     'which returns only if the flush result is Ok (the documented panic otherwise)')
    ms.contract(requires=[('', 'old(w).inv()')],
                ensures=[INV, ('', 'final(w).kept(*old(w)) && final(w).listed == old(w).listed && final(w).published == old(w).published && final(w).now == old(w).now'),
                         ('C03:with-auto-sync-the-file-is-flushed-before-anything-else-happens',
                          'r.is_ok() && self.syncs() ==> old(w).files.contains_key(pv(path)) && final(w).inodes[old(w).files[pv(path)]].synced'),
                         ('C15 C03:syncing-changes-nothing-else',
                          'final(w).files == old(w).files && final(w).dirs == old(w).dirs && forall|i: InodeId| old(w).inodes.contains_key(i) ==> final(w).inodes.contains_key(i) && '
                          '#[trigger] final(w).inodes[i] == (Inode { atime: final(w).inodes[i].atime, synced: final(w).inodes[i].synced, ..old(w).inodes[i] }) '
                          '&& (old(w).inodes[i].synced ==> final(w).inodes[i].synced)'),
                         ('C18 C05 C06:error-is-an-absent-path-or-a-real-fault', 'r.is_err() ==> final(w).hard_faults > old(w).hard_faults || !old(w).files.contains_key(pv(path))'),
                         ('C06 C20:at-most-two-filesystem-calls', 'final(w).steps <= old(w).steps + 2 * (2) && final(w).opens <= old(w).opens + 1')])
    WS = 'self.writer().unwrap()'
    BADK = '(!first_byte_ok(str_bytes(key.name)) || str_bytes(key.name).contains(0x2fu8))'

    def impl_ens(ws, op='set'):
        return [
            ('C18 C05 C06:without-a-real-fault-a-failed-write-published-nothing', 'r.is_err() && final(w).hard_faults == old(w).hard_faults ==> final(w).published == old(w).published'),
            ('C01 C03 C19:a-write-never-changes-the-bytes-of-any-file',
             'bytes_kept(*old(w), *final(w))'),
            ('C13 C11 C18:success-means-a-publication-happened' + ('' if op == 'set' else '-unless-the-key-was-already-bound'),
             'r.is_ok() ==> final(w).published > old(w).published' + ('' if op == 'set' else ' || %s.lookup(old(w).files, key).is_some()' % ws)),
            ] + ([] if op == 'set' else [('C11 C04:put-never-overwrites-an-existing-entry',
                                         'r.is_ok() && final(w).hard_faults == old(w).hard_faults && final(w).listed == old(w).listed && %s.lookup(old(w).files, key).is_some() ==> final(w).published == old(w).published' % ws)]) + [
            INV, ('', 'final(w).kept_nc(*old(w))'),
            ('C13 C15:without-a-write-cache-writes-fail-as-unsupported-and-change-nothing',
             '%s.is_none() ==> r.is_err() && err_kind(err_of(r)) == ErrorKind::Unsupported && *final(w) == *old(w)' % ws.replace('.unwrap()', '')),
            ('C16:invalid-names-fail-with-invalid-input-and-modify-nothing',
             '%s.is_some() && %s ==> r.is_err() && err_kind(err_of(r)) == ErrorKind::InvalidInput && final(w).same_fs(*old(w)) && final(w).counter == old(w).counter '
             '&& final(w).published == old(w).published' % (ws.replace('.unwrap()', ''), BADK)),
            ('C11 C18:success-consumes-the-source', 'r.is_ok() ==> old(w).files.contains_key(pv(value)) && !final(w).files.contains_key(pv(value))'),
            ('C15 C16 C17 C12:everything-that-changes-is-inside-the-write-cache',
             '%s.is_some() ==> %s.wrote(*old(w), *final(w), key, pv(value))' % (ws.replace('.unwrap()', ''), ws)),
            ('C18 C05 C06:error-is-explained',
             'r.is_err() ==> %s.is_none() || %s || final(w).hard_faults > old(w).hard_faults || !final(w).files.contains_key(pv(value))' % (ws.replace('.unwrap()', ''), REJ)),
        ]

    IMPL_REQ = [('', 'old(w).inv() && (self.writer().is_some() ==> %s.level_wf() && %s.rw(old(w).cfg()))' % (WS, WS)),
                ('C01 C03:publishing-needs-a-private-finished-flushed-file-supplied-for-this-key',
                 'self.writer().is_some() && valid_key(str_bytes(key.name)) ==> old(w).value_ok(pv(value), str_bytes(key.name), old(w).must_sync)')]
    for op in ('set', 'put'):
        m = u.under_contract(im.sub(['fn %s_impl' % op]), ['C13', 'C15', 'C16', 'C18', 'C11', 'C03', 'C01', 'C05', 'C12', 'C17'])
        m.air = 'stack::Cache::%s_impl' % op
        m.add_param(W)
        m.replace('Error :: new', 'io_error_new', 'T2-rebind')
        m.thread(['write . ' + op])
        m.contract(requires=IMPL_REQ, ensures=impl_ens(WS, op))

    # set / put (path variants: flush first) and the temp-file variants (finalize first): shim and nested doit
    for op, variant in (('set', 'path'), ('put', 'path'), ('set_temp_file', 'temp'), ('put_temp_file', 'temp')):
        def wcontract(this):
            TW_ = this + '.writer().unwrap()'
            VAL = 'pv(value)' if variant == 'path' else 'value.pathv()'
            req = [('', 'old(w).inv() && old(w).must_sync == %s.syncs() && levels_wf(%s.readers().levels()) && (%s.writer().is_some() ==> %s.level_wf() && %s.rw(old(w).cfg()))' % (this, this, this, TW_, TW_)),
                   ('C01:caller-hands-in-a-private-finished-file-supplied-for-this-key',
                    'valid_key(str_bytes(key.name)) ==> old(w).value_ok(%s, str_bytes(key.name), false)' % VAL)]
            if variant == 'temp':
                req.append(('', 'old(w).files.contains_key(value.pathv()) && old(w).files[value.pathv()] == value.ino() && old(w).inodes.contains_key(value.ino()) && old(w).not_ro_linked(value.ino())'))
            ens = [
                INV, ('', 'final(w).kept_nc(*old(w))'),
                ('C13:without-a-write-cache-nothing-is-published', '%s.writer().is_none() ==> r.is_err() && final(w).published == old(w).published && final(w).dirs == old(w).dirs' % this),
                ('C11 C18:success-consumes-the-source', 'r.is_ok() ==> old(w).files.contains_key(%s) && !final(w).files.contains_key(%s)' % (VAL, VAL)),
                ('C13 C11 C18:success-means-a-publication-happened' + ('' if op.startswith('set') else '-unless-the-key-was-already-bound'),
                 'r.is_ok() ==> final(w).published > old(w).published' + ('' if op.startswith('set') else ' || %s.lookup(old(w).files, key).is_some()' % TW_)),
                ] + ([] if op.startswith('set') else [('C11 C04:put-never-overwrites-an-existing-entry',
                                                      'r.is_ok() && final(w).hard_faults == old(w).hard_faults && final(w).listed == old(w).listed && %s.writer().is_some() && %s.lookup(old(w).files, key).is_some() ==> final(w).published == old(w).published' % (this, TW_))]) + [
                ('C18 C05 C06:error-is-explained',
                 'r.is_err() ==> %s.writer().is_none() || %s || final(w).hard_faults > old(w).hard_faults || !final(w).files.contains_key(%s) || !old(w).files.contains_key(%s)' % (this, REJ, VAL, VAL)),
            ]
            return dict(requires=req, ensures=ens)
        sh = u.under_contract(imp.sub(['fn ' + op]), API_PROPS)
        sh.air = 'stack::Cache::' + op
        specialise(sh)
        sh.contract(**wcontract('self'))
        d = u.under_contract(sh.sub(['fn doit']), API_PROPS)
        d.air = r'stack::impl&%%\d+::%s::doit' % op
        d.add_param(W)
        d.contract(**wcontract('this'))
        d.thread(['this . maybe_sync_path', 'this . set_impl', 'this . put_impl', 'this . finalize_tempfile', 'this . touch', 'this . get'])
        if variant == 'path':
            d.insert_after_stmt('this . maybe_sync_path (', '\n            proof { if valid_key(str_bytes(key.name)) { lemma_value_ok_after_sync(*old(w), *w, pv(value), str_bytes(key.name)); } }')
        else:
            d.insert_after_stmt('let path = this . finalize_tempfile (', '\n            proof { if valid_key(str_bytes(key.name)) { lemma_value_ok_after_finalize(*old(w), *w, path.pathv(), str_bytes(key.name), this.syncs()); } }')
    weave_get_or_update(u, INV, BADK)
    weave_builders_stack(u)
    u.text('}\n')
    # ---- lib.rs: the stock byte-equality checker (C14) ----------------------------------------------
    u.text('pub mod checkers {\nuse crate::std;\nuse crate::std::fs::File;\nuse crate::std::io::Result;\nuse crate::World;\nuse crate::io_error_new;\nuse vstd::prelude::*;\n')
    bc = u.under_contract(u.item('src/lib.rs', ['fn byte_equality_checker']), ['C14', 'C15', 'C18'])
    bc.air = 'checkers::byte_equality_checker'
    bc.add_param(W)
    bc.thread(['. read_to_end'])
    bc.replace('std :: io :: Error :: new', 'io_error_new', 'T2-rebind')
    REST = lambda f: 'old(w).inodes[old(%s).ino()].content.skip(old(%s).offset() as int)' % (f, f)
    bc.contract(requires=[('', 'old(w).inv() && old(w).inodes.contains_key(old(x).ino()) && old(w).inodes.contains_key(old(y).ino())')],
                ensures=[INV, ('', 'final(w).kept(*old(w)) && final(w).listed == old(w).listed && final(w).published == old(w).published'),
                         ('C15 C14:comparing-only-reads', 'final(w).atime_only(*old(w)) && final(x).ino() == old(x).ino() && final(y).ino() == old(y).ino() '
                                                          '&& final(x).can_write() == old(x).can_write() && final(y).can_write() == old(y).can_write()'),
                         ('C14:byte-equality-accepts-only-identical-remaining-bytes', 'r.is_ok() ==> %s == %s' % (REST('x'), REST('y'))),
                         ('C14 C18:byte-equality-rejects-only-a-difference-or-a-failed-read', 'r.is_err() ==> final(w).hard_faults > old(w).hard_faults || %s != %s' % (REST('x'), REST('y')))])
    bc.insert_before('if x_contents',
                     'proof { if x_contents@.len() == y_contents@.len() && (forall|i: int| 0 <= i < x_contents@.len() ==> x_contents@[i] == y_contents@[i]) { assert(x_contents@ =~= y_contents@); } }\n    ')
    u.text('}\n')


def weave_get_or_update(u, INV, BADK):
    """Cache::get_or_update and its nested `promote` (C13 C14 C19 C01 C03)."""
    # the enums the judge callback works with
    for name in ('CacheHit', 'CacheHitAction'):
        e = u.item('src/stack.rs', ['enum ' + name])
        e.drop_attrs()
    u.dropped.append('stack.rs: #[derive(..)] / #[non_exhaustive]-style attributes on CacheHit and CacheHitAction')
    u.text('''
/// The file a hit carries.
pub open spec fn hit_file<'a>(h: CacheHit<'a>) -> &'a mut File {
    match h {
        CacheHit::Primary(f) => f,
        CacheHit::Secondary(f) => f,
    }
}

pub proof fn lemma_path_split(p: PathV)
    requires
        p.len() > 0,
    ensures
        p == child(parent(p), base_name(p)),
{
    assert(p =~= p.drop_last().push(p.last()));
}

/// A freshly created temporary file inside a `.kismet_temp` directory is bound by that one name only, and no reader can see it.
pub proof fn lemma_fresh_temp_invisible(w1: World, w2: World, path: PathV, ino: InodeId)
    requires
        w1.env_ok(),
        w2.env_ok(),
        w2.cache_dirs == w1.cache_dirs && w2.ro_roots == w1.ro_roots,
        !w1.inodes.contains_key(ino),
        w2.files == w1.files.insert(path, ino),
        path.len() > 0,
        w1.is_temp_dir(parent(path)),
        !w1.under_ro(parent(path)),
    ensures
        w2.invisible(ino),
        forall|q: PathV| #[trigger] w2.files.contains_key(q) && w2.files[q] == ino ==> q == path,
        !w2.in_cache_namespace(path),
{
    assert forall|q: PathV| #[trigger] w2.files.contains_key(q) && w2.files[q] == ino implies q == path by {
        if q != path {
            assert(w1.files.contains_key(q));
            assert(w1.inodes.contains_key(w1.files[q]));
        }
    }
    assert(!w2.cache_dirs.contains(parent(path))) by {
        if w1.cache_dirs.contains(parent(path)) {
            assert(base_name(parent(path)) != temp_name());
        }
    }
}
''')
    u.text('''
/// ASSUMPTION about every judge callback (C13 C19): it may read and seek the hit, but hands back the same handle.
#[verifier::prophetic]
pub open spec fn judge_reads_only<J: FnOnce(CacheHit) -> CacheHitAction>(judge: J) -> bool {
    &&& forall|h: CacheHit| #[trigger] call_requires(judge, (h,))
    &&& forall|h: CacheHit, a: CacheHitAction| #[trigger] call_ensures(judge, (h,), a) ==> final(hit_file(h)).ino() == hit_file(h).ino() && final(hit_file(h)).can_write() == hit_file(h).can_write()
}

/// C13 "changes nothing": no name a lookup could resolve is created, removed or re-bound.
pub open spec fn namespace_same(old: World, fin: World) -> bool {
    forall|p: PathV| #![trigger old.files.contains_key(p)] #![trigger fin.files.contains_key(p)] old.in_cache_namespace(p) ==> (fin.files.contains_key(p) <==> old.files.contains_key(p)) && (old.files.contains_key(p) ==> fin.files[p] == old.files[p])
}

/// C13 C14: what get_or_update does with a hit on the copy `hit`, judged `a`, when it returns `r`.
pub open spec fn hit_outcome(c: &Cache, old: World, fin: World, primary: bool, hit: InodeId, a: CacheHitAction, r: File) -> bool {
    match a {
        CacheHitAction::Replace => !old.inodes.contains_key(r.ino()) && (c.writer().is_some() ==> fin.published > old.published),
        _ => {
            &&& r.ino() == hit
            &&& if a is Promote && !primary && c.writer().is_some() {
                fin.published > old.published
            } else {
                fin.published == old.published && namespace_same(old, fin)
            }
            &&& c.checker().is_some() ==> fin.app_not_found > old.app_not_found || exists|t: InodeId| !old.inodes.contains_key(t) && #[trigger] checker_accepts(c.checker().unwrap(), hit, t)
        },
    }
}

/// T2: `opt.as_ref().map(Arc::as_ref)` (function items as values are outside Verus).
#[verifier::external_body]
pub fn opt_arc_as_ref<T: ?Sized>(o: &Option<Arc<T>>) -> (r: Option<&T>)
    ensures
        r.is_some() == o.is_some(),
        o.is_some() ==> r.unwrap() == &*o.unwrap(),
{
    unimplemented!()
}
''')
    u.text('use crate::std::io::Seek;\nuse crate::std::io::SeekFrom;\nuse crate::call_populate;\n')
    im = u.item('src/stack.rs', ['impl Cache'])
    im.drop_members_except({'get_or_update', 'ensure'})
    g = u.under_contract(im.sub(['fn get_or_update']), ['C13', 'C14', 'C19', 'C01', 'C03', 'C02', 'C16', 'C18', 'C11', 'C15'])
    g.air = r'stack::(Cache|impl&%\d+)::get_or_update(::get_tempfile)?'
    g.add_param(W)
    g.replace("key : impl Into < Key < 'a > >", "key: Key<'a>", 'T11-into-identity')
    g.replace('key . into ( )', 'key', 'T11-into-identity')
    g.replace('self . write_side . as_ref ( ) . map ( Arc :: as_ref )', 'opt_arc_as_ref(&self.write_side)', 'T2-rebind')
    u.dropped.append('T2: `self.write_side.as_ref().map(Arc::as_ref)` in get_or_update is rebound to the stand-in opt_arc_as_ref(&self.write_side) (same Option<&dyn FullCache>)')
    g.replace('cache_or . and_then ( | cache | cache . get ( key ) . transpose ( ) ) . transpose ( )',
              '(match cache_or { Some(cache) => cache.get(key, Tracked(w)), None => Ok(None) })', 'T14-transpose-identity')
    u.dropped.append('T14: `opt.and_then(|c| c.get(key).transpose()).transpose()` is rewritten to the equal `match opt { Some(c) => c.get(key), None => Ok(None) }` '
                     '(Option::transpose / Result::transpose are mutually inverse; closures capturing the ghost world are outside Verus)')
    GT_CONTRACT = ('\n            requires\n                old(w).inv(),\n                cache_or.is_some() ==> cache_or.unwrap().level_wf() && cache_or.unwrap().rw(old(w).cfg()),\n'
                   '            ensures\n                final(w).inv(),\n                final(w).kept_nc(*old(w)) && final(w).published == old(w).published && final(w).published == old(w).published,\n'
                   '                namespace_same(*old(w), *final(w)),\n'
                   '                bytes_kept(*old(w), *final(w)),\n'
                   '                forall|i: InodeId| #[trigger] old(w).inodes.contains_key(i) ==> final(w).inodes[i] == old(w).inodes[i],\n'
                   '                forall|k: Key| cache_or.is_some() ==> #[trigger] cache_or.unwrap().lookup(final(w).files, k) == cache_or.unwrap().lookup(old(w).files, k),\n'
                   '                r.is_err() ==> final(w).hard_faults > old(w).hard_faults,\n'
                   '                r.is_ok() ==> r.unwrap().can_write() && r.unwrap().offset() == 0 && !old(w).inodes.contains_key(r.unwrap().ino()) && final(w).inodes.contains_key(r.unwrap().ino()) '
                   '&& final(w).inodes[r.unwrap().ino()].content.len() == 0 && final(w).invisible(r.unwrap().ino()),   // @L C01 C02:scratch-files-are-fresh-empty-and-invisible\n')
    g.replace('let get_tempfile = | |', 'fn get_tempfile(cache_or: Option<&dyn FullCache>, key: Key, %s) -> (r: Result<File>)%s' % (W, GT_CONTRACT), 'T4-closure-lift')
    g.replace('get_tempfile ( )', 'get_tempfile(cache_or, key, Tracked(w))', 'T4-closure-call')
    g.replace('checker ( & mut file , & mut read )', 'checker.call(&mut file, &mut read)', 'T7-checker-call')
    g.replace('checker ( & mut file , & mut tmp )', 'checker.call(&mut file, &mut tmp)', 'T7-checker-call')
    GN = 'Ghost(str_bytes(key.name)), Tracked(w)'
    g.replace('populate ( & mut tmp , None )', 'call_populate(populate, &mut tmp, None, %s)' % GN, 'T1-callback')
    g.replace('populate ( & mut tmp , old )', 'call_populate(populate, &mut tmp, old, %s)' % GN, 'T1-callback')
    g.replace('populate ( tmp . as_file_mut ( ) , old )', 'call_populate(populate, tmp.as_file_mut(), old, %s)' % GN, 'T1-callback')
    u.dropped.append('T1 (callback): `populate(dst, old)` in get_or_update becomes call_populate(populate, dst, old, Ghost(key name), Tracked(w)), an external_body '
                     'stand-in whose body is that call and whose contract is the assumption made about every populate function')
    g.thread(['self . read_side . get', '. seek', 'tempfile :: tempfile', 'tempfile :: tempfile_in', 'cache . temp_dir', 'NamedTempFile :: new_in', 'self . finalize_tempfile',
              'File :: open', 'cache . set', 'cache . put', 'cache . get', 'promote', 'std :: io :: copy', 'finalize_tempfile'])
    pr = u.under_contract(g.sub(['fn promote']), ['C13', 'C19', 'C01', 'C03', 'C02', 'C18', 'C11', 'C15', 'C16'])
    pr.air = r'stack::impl&%\d+::get_or_update::promote'
    pr.add_param(W)
    NAME = 'str_bytes(key.name)'
    # the flag is a parameter today; if a change drops it, the clause about it goes too and the flush obligation
    # falls on the precondition of `cache.put` (a flushed file when auto_sync demands it)
    po, pc = pr.params()
    has_sync = pr._find('sync : bool', count=True, lo=po, hi=pc) == 1
    pr.contract(
        requires=[('', 'old(w).inv() && cache.level_wf() && cache.rw(old(w).cfg()) && valid_key(%s) && old(w).inodes.contains_key(file.ino())' % NAME),
                  ] + ([('C03:promotion-flushes-exactly-when-auto-sync-is-on', 'old(w).must_sync == sync')] if has_sync else []) + [
                  ('C13 C01 C19:the-hit-is-copied-from-its-first-byte', 'file.offset() == 0'),
                  ('C01:only-bytes-supplied-for-this-key-are-promoted', 'old(w).supplied.contains((%s, old(w).inodes[file.ino()].content))' % NAME)],
        ensures=[
            INV, ('', 'final(w).kept_nc(*old(w))'),
            ('C13 C19 C01:the-hit-itself-is-returned-rewound', 'r.is_ok() ==> r.unwrap().ino() == file.ino() && r.unwrap().can_write() == file.can_write() && r.unwrap().offset() == 0'),
            ('C13 C11 C18:an-identical-copy-is-published-in-the-write-cache-unless-the-key-was-already-bound',
             'r.is_ok() ==> final(w).published > old(w).published || cache.lookup(old(w).files, key).is_some()'),
            ('C18 C05 C06:without-a-real-fault-a-failed-promotion-published-nothing', 'r.is_err() && final(w).hard_faults == old(w).hard_faults ==> final(w).published == old(w).published'),
            ('C01 C15:the-hit-keeps-its-bytes', 'final(w).inodes.contains_key(file.ino()) && final(w).inodes[file.ino()].content == old(w).inodes[file.ino()].content'),
        ])
    pr.insert_after_stmt('let mut tmp = NamedTempFile :: new_in',
                    '\n            let ghost w2 = *w;\n            let ghost tmp_path = tmp.pathv();\n            let ghost tmp_ino = tmp.ino();\n'
                    '            proof {\n'
                    '                lemma_path_split(tmp.pathv());\n'
                    '                assert(cache.lookup(w2.files, key) == cache.lookup(old(w).files, key));\n'
                    '                assert(w2.invisible(tmp.ino()) && !w2.in_cache_namespace(tmp.pathv()) && forall|q: PathV| #[trigger] w2.files.contains_key(q) && w2.files[q] == tmp.ino() ==> q == tmp.pathv());\n'
                    '            }')
    pr.insert_after_stmt('std :: io :: copy (',
                    '\n            proof { crate::std::io::lemma_copied_whole(w2.inodes[file.ino()].content); assert(w2.inodes.contains_key(file.ino())); assert(file.ino() != tmp.ino()); assert(w.inodes.contains_key(file.ino())); assert(w2.inodes[file.ino()].content == old(w).inodes[file.ino()].content); assert(w.inodes[file.ino()].content == w2.inodes[file.ino()].content); }')
    pr.insert_after_stmt('let path = finalize_tempfile (',
                     '\n            proof {\n'
                     '                let pth = path.pathv();\n'
                     '                assert(pth == tmp_path);\n'
                     '                assert(w.owned.contains(pth));\n'
                     '                assert(!w.in_cache_namespace(pth));\n'
                     '                assert(!w.under_ro(pth));\n'
                     '                assert(w.files.contains_key(pth) && w.files[pth] == tmp_ino);\n'
                     '                assert(w.inode_at(pth).content == w2.inodes[file.ino()].content);\n'
                     '                assert(w.supplied.contains((%s, w.inode_at(pth).content)));\n'
                     '                assert(w.must_sync ==> w.inode_at(pth).synced);\n'
                     '                assert(forall|q: PathV| #[trigger] w.files.contains_key(q) && w.files[q] == w.files[pth] ==> !w.in_cache_namespace(q));\n'
                     '            }' % NAME)
    # ---- the contract of get_or_update itself ----------------------------------------------------------
    WS = 'self.writer().unwrap()'
    RS = 'self.readers()'
    WHIT = '(self.writer().is_some() && %s.lookup(old(w).files, key).is_some())' % WS
    g.contract(
        requires=[('', 'old(w).inv() && old(w).must_sync == self.syncs() && levels_wf(%s.levels()) && levels_configured(%s.levels(), old(w).cfg()) '
                       '&& %s.checker() == self.checker() && (self.writer().is_some() ==> %s.level_wf() && %s.rw(old(w).cfg()))' % (RS, RS, RS, WS, WS)),
                  ('', 'judge_reads_only(judge)')],
        ensures=[
            INV, ('', 'final(w).kept_nc(*old(w))'),
            ('C16:invalid-names-fail-with-invalid-input-and-change-nothing',
             '(self.writer().is_some() || %s.levels().len() > 0) && !first_byte_ok(%s) ==> r.is_err() && err_kind(err_of(r)) == ErrorKind::InvalidInput && final(w).same_fs(*old(w))' % (RS, NAME)),
            ('C19 C13 C01:every-returned-handle-is-positioned-at-offset-zero', 'r.is_ok() ==> r.unwrap().offset() == 0'),
            ('C19:only-a-throw-away-file-is-ever-returned-writable',
             'r.is_ok() && r.unwrap().can_write() ==> self.writer().is_none() && !old(w).inodes.contains_key(r.unwrap().ino())'),
            ('C01:the-returned-file-holds-bytes-supplied-for-exactly-this-key',
             'r.is_ok() ==> final(w).inodes.contains_key(r.unwrap().ino()) && final(w).supplied.contains((%s, final(w).inodes[r.unwrap().ino()].content))' % NAME),
            ('C13 C14:a-write-cache-hit-is-judged-primary-and-the-action-applied',
             'r.is_ok() && %s ==> exists|h: CacheHit, a: CacheHitAction| #[trigger] call_ensures(judge, (h,), a) && h is Primary && hit_file(h).ino() == %s.lookup(old(w).files, key).unwrap() '
             '&& hit_outcome(self, *old(w), *final(w), true, hit_file(h).ino(), a, r.unwrap())' % (WHIT, WS)),
            ('C14:a-write-cache-hit-is-checked-against-every-read-only-copy',
             'r.is_ok() && %s && self.checker().is_some() ==> read_copies_accepted(%s, old(w).files, key, self.checker().unwrap(), %s.lookup(old(w).files, key).unwrap())' % (WHIT, RS, WS)),
            ('C13 C14:otherwise-the-first-read-only-copy-is-judged-secondary-and-the-action-applied',
             'r.is_ok() && !%s && !no_read_copy(%s, old(w).files, key) ==> exists|h: CacheHit, a: CacheHitAction, idx: int| #[trigger] call_ensures(judge, (h,), a) && h is Secondary '
             '&& #[trigger] first_copy(%s.levels(), old(w).files, key, idx, hit_file(h).ino()) && hit_outcome(self, *old(w), *final(w), false, hit_file(h).ino(), a, r.unwrap())' % (WHIT, RS, RS)),
            ('C05 C18 C13 C06:once-the-value-is-published-the-call-succeeds-unless-a-real-fault-follows',
             'r.is_err() ==> final(w).published == old(w).published || final(w).hard_faults > old(w).hard_faults'),
            ('C13 C18:a-miss-is-populated-and-stored-in-the-write-cache-or-served-from-a-throw-away-file',
             'r.is_ok() && !%s && no_read_copy(%s, old(w).files, key) ==> if self.writer().is_some() { final(w).published > old(w).published } else { '
             '!old(w).inodes.contains_key(r.unwrap().ino()) && final(w).published == old(w).published && namespace_same(*old(w), *final(w)) }' % (WHIT, RS)),
        ])
    g.insert_after_stmt('let mut tmp = NamedTempFile :: new_in',
                   '\n        let ghost w2 = *w;\n        let ghost tmp_path = tmp.pathv();\n        let ghost tmp_ino = tmp.ino();\n'
                   '        proof {\n'
                   '            lemma_path_split(tmp.pathv());\n'
                   '            assert(cache.lookup(w2.files, key) == cache.lookup(w0.files, key));\n'
                   '            assert(w2.invisible(tmp.ino()) && !w2.in_cache_namespace(tmp.pathv()) && !w2.under_ro(tmp.pathv()) '
                   '&& forall|q: PathV| #[trigger] w2.files.contains_key(q) && w2.files[q] == tmp.ino() ==> q == tmp.pathv());\n'
                   '        }', nth=-1)
    g.insert_after_stmt('let mut tmp = tempfile :: tempfile (', '\n                proof { crate::tempfile::lemma_anon_invisible(wt0, *w, Ok(tmp)); }')
    g.insert_before('let mut tmp = tempfile :: tempfile ( ) ? ;', 'let ghost wt0 = *w;\n                ')
    g.body_start('let ghost w0 = *w;   // the local variable `old` below shadows old(..)')
    g.attr('#[verifier::rlimit(400)]')   # ~30 exits x 11 postconditions: the largest query of the unit (see DESIGN, solver budget)
    # ---- Cache::ensure: get_or_update with the constant judge Promote ----------------------------------
    en = u.under_contract(im.sub(['fn ensure']), ['C13', 'C14', 'C19', 'C01', 'C03', 'C02', 'C16', 'C18', 'C05'])
    en.air = 'stack::Cache::ensure'
    en.add_param(W)
    en.replace("key : impl Into < Key < 'a > >", "key: Key<'a>", 'T11-into-identity')
    # the nested constant judge, whatever it and its (usually unused) parameter are called
    jname, jparam = None, None
    for i in range(en.item.lo, en.hi - 5):
        t = en.ct
        if t[i][1] == 'fn' and t[i + 2][1] == '(' and t[i + 4][1] == ':' and t[i + 5][1] == 'CacheHit' and t[i + 6][1] == ')':
            jname, jparam = t[i + 1][1], t[i + 3][1]
    if jname is None:
        raise ExtractError('src/stack.rs::impl Cache::fn ensure: the nested judge function (one CacheHit parameter) was not found')
    if jparam == '_':
        en.replace('fn %s ( _ : CacheHit )' % jname, 'fn %s(kv_h: CacheHit)' % jname, 'T12-unused-param-name')
        jparam = 'kv_h'
    # the adapter closure around populate: its second parameter is unused whatever it is called
    for i in range(en.item.lo, en.hi - 6):
        t = en.ct
        if t[i][1] == '|' and t[i + 2][1] == ',' and t[i + 4][1] == '|' and t[i + 5][1] == 'populate' and t[i + 6][1] == '(':
            en.replace('| %s , %s | populate (' % (t[i + 1][1], t[i + 3][1]), '|%s: &mut File, kv_old: Option<File>| populate(' % t[i + 1][1], 'T12-unused-param-name')
            break
    else:
        raise ExtractError('src/stack.rs::impl Cache::fn ensure: the adapter closure around populate was not found')
    en.thread(['self . get_or_update'])
    en.contract(
        requires=[('', 'old(w).inv() && old(w).must_sync == self.syncs() && levels_wf(%s.levels()) && levels_configured(%s.levels(), old(w).cfg()) '
                       '&& %s.checker() == self.checker() && (self.writer().is_some() ==> %s.level_wf() && %s.rw(old(w).cfg()))' % (RS, RS, RS, WS, WS)),
                  ('', 'forall|d: &mut File| #[trigger] call_requires(populate, (d,))')],
        ensures=[
            INV, ('', 'final(w).kept_nc(*old(w))'),
            ('C19 C13 C01:every-returned-handle-is-positioned-at-offset-zero', 'r.is_ok() ==> r.unwrap().offset() == 0'),
            ('C19:only-a-throw-away-file-is-ever-returned-writable', 'r.is_ok() && r.unwrap().can_write() ==> self.writer().is_none() && !old(w).inodes.contains_key(r.unwrap().ino())'),
            ('C01:the-returned-file-holds-bytes-supplied-for-exactly-this-key',
             'r.is_ok() ==> final(w).inodes.contains_key(r.unwrap().ino()) && final(w).supplied.contains((%s, final(w).inodes[r.unwrap().ino()].content))' % NAME),
            ('C13:ensure-returns-a-write-cache-hit-as-it-is', 'r.is_ok() && %s ==> r.unwrap().ino() == %s.lookup(old(w).files, key).unwrap() && final(w).published == old(w).published '
                                                              '&& namespace_same(*old(w), *final(w))' % (WHIT, WS)),
            ('C13:ensure-promotes-a-read-only-hit-into-the-write-cache',
             'r.is_ok() && !%s && !no_read_copy(%s, old(w).files, key) ==> (exists|idx: int| #[trigger] first_copy(%s.levels(), old(w).files, key, idx, r.unwrap().ino())) '
             '&& (self.writer().is_some() ==> final(w).published > old(w).published)' % (WHIT, RS, RS)),
            ('C13:ensure-populates-and-stores-a-missing-value', 'r.is_ok() && !%s && no_read_copy(%s, old(w).files, key) && self.writer().is_some() ==> final(w).published > old(w).published' % (WHIT, RS)),
            ('C05 C18 C13 C06:once-the-value-is-published-the-call-succeeds-unless-a-real-fault-follows',
             'r.is_err() ==> final(w).published == old(w).published || final(w).hard_faults > old(w).hard_faults'),
        ])
    jd = en.sub(['fn ' + jname])
    jd.contract(ensures=[('C13:ensure-always-asks-for-promotion', 'r is Promote'),
                         ('', 'final(hit_file(%s)).ino() == hit_file(%s).ino() && final(hit_file(%s)).can_write() == hit_file(%s).can_write()' % ((jparam,) * 4))])
    u.dropped.append('T12: the unused parameter `_` of `ensure::judge` is spelled `kv_h` (Verus needs a named parameter to state that the hit is handed back unchanged)')


DYN_TY = ('Option < Arc < dyn Fn ( & mut File , & mut File ) -> Result < ( ) > + Sync + Send + std :: panic :: RefUnwindSafe '
          '+ std :: panic :: UnwindSafe , > , >')


def weave_builders_readonly(u):
    """C14 "the builder installs the checker on both sides": ReadOnlyCache::new, ReadOnlyCacheBuilder::{arc_consistency_checker, build}."""
    u.dropped.append('T7: the spelled-out parameter type `Option<Arc<dyn Fn(&mut File, &mut File) -> Result<()> + markers>>` of the two arc_consistency_checker '
                     'methods is `Option<ConsistencyChecker>` (the alias, i.e. the stand-in); T2: `a.clone_from(&b)` is rebound to `a = b.clone()` (Verus has no clone_from)')
    sb = u.item('src/readonly.rs', ['struct ReadOnlyCacheBuilder'])
    sb.drop_attrs()
    sb.drop_inner_attrs('# [ derivative ( Debug = "ignore" ) ]')
    sb.insert_before('stack :', 'pub ')
    sb.insert_before('consistency_checker :', 'pub ')
    u.dropped.append('readonly.rs / stack.rs: #[derive(Default, Derivative)] on the two builder structs; their fields are widened to `pub` (T9) for the contracts')
    ib = u.item('src/readonly.rs', ['impl ReadOnlyCacheBuilder'])
    ib.drop_members_except({'arc_consistency_checker', 'build', 'plain', 'sharded', 'cache'})
    u.text('''
/// T2: `self.stack.push(Box::new(level))` (Vec::push has no usable specification for `Box<dyn Trait>` elements in this Verus).
#[verifier::external_body]
pub fn push_level(v: &mut Vec<Box<dyn ReadSide>>, b: Box<dyn ReadSide>)
    ensures
        final(v)@.len() == old(v)@.len() + 1,
        final(v)@.drop_last() == old(v)@,
        final(v)@.last() == b,
{
    unimplemented!()
}
''')
    APPENDED = ('r.consistency_checker == old(self).consistency_checker && r.stack@.len() == old(self).stack@.len() + 1 && r.stack@.drop_last() == old(self).stack@ '
                '&& r.stack@.last().level_wf() && *final(self) == *final(r)')
    pl = u.under_contract(ib.sub(['fn plain']), ['C13', 'C14'])
    pl.air = 'readonly::ReadOnlyCacheBuilder::plain'
    pl.replace('path : impl AsRef < Path >', 'path: &Path', 'T11-into-identity')
    pl.replace('path . as_ref ( )', 'path', 'T11-into-identity')
    if pl._find('self . stack . push (', count=True):
        pl.replace('self . stack . push (', 'push_level(&mut self.stack, ', 'T2-rebind')
    pl.contract(ensures=[
        ('C13:a-new-level-is-appended-at-the-end-of-the-search-list', APPENDED),
        ('C13 C11:the-new-level-is-the-plain-directory-at-that-path',
         'forall|links: Map<PathV, InodeId>, key: Key| #[trigger] r.stack@.last().lookup(links, key) == plain_lookup(links, pv(path), str_bytes(key.name))'),
    ])
    pl.body_start('broadcast use group_asref;\n        let ghost s0 = self.stack@;')
    pl.insert_before('self', 'proof { lemma_child(pv(path), temp_name()); }\n        ', nth=-1)
    sh_ = u.under_contract(ib.sub(['fn sharded']), ['C13', 'C14', 'C12'])
    sh_.air = 'readonly::ReadOnlyCacheBuilder::sharded'
    sh_.replace('path : impl AsRef < Path >', 'path: &Path', 'T11-into-identity')
    sh_.replace('path . as_ref ( )', 'path', 'T11-into-identity')
    if sh_._find('self . stack . push (', count=True):
        sh_.replace('self . stack . push (', 'push_level(&mut self.stack, ', 'T2-rebind')
    sh_.contract(ensures=[
        ('C13:a-new-level-is-appended-at-the-end-of-the-search-list', APPENDED),
        ('C13 C12 C11:the-new-level-is-the-sharded-directory-at-that-path',
         'forall|links: Map<PathV, InodeId>, key: Key| #[trigger] r.stack@.last().lookup(links, key) == sharded_lookup(links, pv(path), if num_shards < 2 { 2usize } else { num_shards }, key)'),
    ])
    sh_.body_start('broadcast use group_asref;\n        let ghost s0 = self.stack@;')
    ca = u.under_contract(ib.sub(['fn cache']), ['C13', 'C14', 'C12'])
    ca.air = 'readonly::ReadOnlyCacheBuilder::cache'
    ca.replace('path : impl AsRef < Path >', 'path: &Path', 'T11-into-identity')
    ca.contract(ensures=[('C13:a-new-level-is-appended-at-the-end-of-the-search-list', APPENDED)])
    a = u.under_contract(ib.sub(['fn arc_consistency_checker']), ['C14'])
    a.air = 'readonly::ReadOnlyCacheBuilder::arc_consistency_checker'
    a.drop_attrs()
    a.replace(DYN_TY, 'Option<ConsistencyChecker>', 'T7-checker-type')
    a.contract(ensures=[('C14:the-read-side-gets-exactly-this-checker', 'r.consistency_checker == checker && r.stack == old(self).stack && *final(self) == *final(r)')])
    b = u.under_contract(ib.sub(['fn build']), ['C14', 'C13'])
    b.air = 'readonly::ReadOnlyCacheBuilder::build'
    b.contract(ensures=[('C14 C13:the-cache-has-the-builders-levels-in-order-and-its-checker', 'r.levels() == self.stack@ && r.checker() == self.consistency_checker')])


def weave_builders_stack(u):
    """CacheBuilder::{arc_consistency_checker, clear_consistency_checker, auto_sync, build}."""
    cb = u.item('src/stack.rs', ['struct CacheBuilder'])
    cb.drop_attrs()
    cb.drop_inner_attrs('# [ derivative ( Debug = "ignore" ) ]')
    for fld in ('write_side :', 'auto_sync :', 'consistency_checker :', 'read_side :'):
        cb.insert_before(fld, 'pub ')
    u.text('''
impl CacheBuilder {
    /// Builder invariant (C14): both sides hold the same checker.
    pub open spec fn wf(&self) -> bool {
        self.consistency_checker == self.read_side.consistency_checker
    }
}
''')
    ic = u.item('src/stack.rs', ['impl CacheBuilder'])
    ic.drop_members_except({'arc_consistency_checker', 'clear_consistency_checker', 'auto_sync', 'build', 'reader', 'plain_reader', 'sharded_reader',
                            'writer', 'plain_writer', 'sharded_writer'})
    u.text('''
/// T2: `let _ = self.write_side.insert(Arc::new(cache))` (Option::insert of an `Arc<dyn Trait>`).
#[verifier::external_body]
pub fn set_writer(o: &mut Option<Arc<dyn FullCache>>, a: Arc<dyn FullCache>)
    ensures
        final(o).is_some(),
        final(o).unwrap() == a,
{
    unimplemented!()
}
''')
    SAME_REST = ('r.consistency_checker == old(self).consistency_checker && r.read_side.consistency_checker == old(self).read_side.consistency_checker '
                 '&& r.auto_sync == old(self).auto_sync && *final(self) == *final(r)')
    RD_APP = ('r.write_side == old(self).write_side && r.read_side.stack@.len() == old(self).read_side.stack@.len() + 1 '
              '&& r.read_side.stack@.drop_last() == old(self).read_side.stack@ && r.read_side.stack@.last().level_wf()')
    for name, extra in (('plain_reader', 'forall|links: Map<PathV, InodeId>, key: Key| #[trigger] r.read_side.stack@.last().lookup(links, key) == plain_lookup(links, pv(path), str_bytes(key.name))'),
                        ('sharded_reader', 'forall|links: Map<PathV, InodeId>, key: Key| #[trigger] r.read_side.stack@.last().lookup(links, key) == sharded_lookup(links, pv(path), if num_shards < 2 { 2usize } else { num_shards }, key)'),
                        ('reader', None)):
        m = u.under_contract(ic.sub(['fn ' + name]), ['C13', 'C14', 'C12'])
        m.air = 'stack::CacheBuilder::' + name
        m.replace('path : impl AsRef < Path >', 'path: &Path', 'T11-into-identity')
        ens = [('C13:a-new-read-only-level-is-appended-at-the-end-of-the-search-list', RD_APP), ('C14', SAME_REST)]
        if extra:
            ens.append(('C13 C12 C11:the-new-level-looks-up-that-directory', extra))
        m.contract(ensures=ens)
    for name, extra in (('plain_writer', 'forall|links: Map<PathV, InodeId>, key: Key| #[trigger] r.write_side.unwrap().lookup(links, key) == plain_lookup(links, pv(path), str_bytes(key.name))'),
                        ('sharded_writer', 'forall|links: Map<PathV, InodeId>, key: Key| #[trigger] r.write_side.unwrap().lookup(links, key) == sharded_lookup(links, pv(path), if num_shards < 2 { 2usize } else { num_shards }, key)'),
                        ('writer', None)):
        m = u.under_contract(ic.sub(['fn ' + name]), ['C13', 'C14', 'C12'])
        m.air = 'stack::CacheBuilder::' + name
        m.replace('path : impl AsRef < Path >', 'path: &Path', 'T11-into-identity')
        if name != 'writer':
            m.replace('path . as_ref ( )', 'path', 'T11-into-identity')
            m.replace('let _ = self . write_side . insert (', 'set_writer(&mut self.write_side, ', 'T2-rebind')
            m.body_start('broadcast use group_asref;')
            m.insert_before('self', 'proof { lemma_child(pv(path), temp_name()); }\n        ', nth=-1)
        ens = [('C13:the-write-cache-is-replaced-and-the-search-list-is-untouched', 'r.write_side.is_some() && r.write_side.unwrap().level_wf() && r.read_side.stack == old(self).read_side.stack'),
               ('C14', SAME_REST)]
        if extra:
            ens.append(('C13 C12 C11:the-write-cache-is-that-directory', extra))
        m.contract(ensures=ens)
    KEEPS = 'r.write_side == old(self).write_side && r.read_side.stack == old(self).read_side.stack'
    a = u.under_contract(ic.sub(['fn arc_consistency_checker']), ['C14'])
    a.air = 'stack::CacheBuilder::arc_consistency_checker'
    a.drop_attrs()
    a.replace(DYN_TY, 'Option<ConsistencyChecker>', 'T7-checker-type')
    a.replace('self . consistency_checker . clone_from ( & checker )', 'self.consistency_checker = checker.clone()', 'T2-rebind')
    a.contract(ensures=[('C14:the-builder-installs-the-checker-on-both-sides', 'r.consistency_checker == checker && r.read_side.consistency_checker == checker && r.wf()'),
                        ('', KEEPS + ' && r.auto_sync == old(self).auto_sync && *final(self) == *final(r)')])
    c = u.under_contract(ic.sub(['fn clear_consistency_checker']), ['C14'])
    c.air = 'stack::CacheBuilder::clear_consistency_checker'
    c.contract(ensures=[('C14:clearing-removes-the-checker-on-both-sides', 'r.consistency_checker.is_none() && r.read_side.consistency_checker.is_none() && r.wf()'),
                        ('', KEEPS + ' && r.auto_sync == old(self).auto_sync && *final(self) == *final(r)')])
    s_ = u.under_contract(ic.sub(['fn auto_sync']), ['C03', 'C14'])
    s_.air = 'stack::CacheBuilder::auto_sync'
    s_.contract(ensures=[('C03:the-flag-is-stored', 'r.auto_sync == sync'),
                         ('C14', KEEPS + ' && r.consistency_checker == old(self).consistency_checker && r.read_side.consistency_checker == old(self).read_side.consistency_checker && *final(self) == *final(r)')])
    b = u.under_contract(ic.sub(['fn build']), ['C14', 'C13', 'C03'])
    b.air = 'stack::CacheBuilder::build'
    b.contract(ensures=[('C14:the-cache-and-its-read-side-share-the-builders-checker',
                         'r.checker() == self.consistency_checker && r.readers().checker() == self.read_side.consistency_checker && (self.wf() ==> r.readers().checker() == r.checker())'),
                        ('C13 C03:levels-writer-and-auto-sync-are-the-builders', 'r.readers().levels() == self.read_side.stack@ && r.writer() == self.write_side && r.syncs() == self.auto_sync')])
