"""U3: shard placement arithmetic (multiplicative_hash.rs, sharded::Cache::{other_shard_id, shard_ids})."""
import hashlib

SERVES = ['C12']


def constants():
    out = {}
    for tag, s in (('P', b'kismet: primary shard mixer'), ('S', b'kismet: secondary shard mixer')):
        h = hashlib.sha256(s).digest()
        out[tag + 'M'] = int.from_bytes(h[0:8], 'little') | 1
        out[tag + 'A'] = int.from_bytes(h[8:16], 'little')
    return out


def hash_prelude(u):
    import os
    import kv
    txt = open(os.path.join(kv.VERIF, 'contracts', 'prelude', 'hash_spec.rs')).read()
    for k, v in constants().items():
        txt = txt.replace('@%s@' % k, '0x%x' % v)
    u.text(txt, 'prelude/hash_spec.rs')


def hash_prelude_specs_only(u):
    """hash_spec.rs without the ExPathBuf declaration (already made by vfs.rs in the filesystem units)."""
    import os
    import kv
    txt = open(os.path.join(kv.VERIF, 'contracts', 'prelude', 'hash_spec.rs')).read()
    txt = txt[:txt.index('#[verifier::external_type_specification]')]
    for k, v in constants().items():
        txt = txt.replace('@%s@' % k, '0x%x' % v)
    u.text(txt, 'prelude/hash_spec.rs')


def weave_hash(u, props=('C12',)):
    props = list(props)
    u.text('pub mod multiplicative_hash {\nuse super::*;\n')
    st = u.item('src/multiplicative_hash.rs', ['struct MultiplicativeHash'])
    st.drop_attrs()
    st.replace('pub ( crate ) struct', 'pub struct', 'T9-visibility')
    u.dropped.append('multiplicative_hash.rs: #[derive(Clone, Copy, Debug, PartialEq, Eq, Hash)] on MultiplicativeHash')

    red = u.under_contract(u.item('src/multiplicative_hash.rs', ['fn reduce']), props)
    red.air = 'multiplicative_hash::reduce'
    red.drop_attrs()
    red.contract(ensures=[('C12:reduce-is-floor-of-scaled-product', 'r as int == reduce_spec(x, domain)')])
    red.body_start('proof {\n        reveal(reduce_spec);\n        lemma_reduce(x, domain);\n        let p = (domain as u128 * x as u128) as u128;\n'
                   '        assert(p >> 64 == p / 0x1_0000_0000_0000_0000u128) by (bit_vector);\n    }')

    im = u.item('src/multiplicative_hash.rs', ['impl MultiplicativeHash'])
    im.drop_inner_attrs('# [ inline ( always ) ]')
    new = u.under_contract(im.sub(['fn new']), props)
    new.air = 'multiplicative_hash::MultiplicativeHash::new'
    new.insert_before_tok(new.lo,
                          'pub closed spec fn spec_multiplier(&self) -> u64 { self.multiplier }\n'
                          '    pub closed spec fn spec_addend(&self) -> u64 { self.addend }\n\n    ')
    new.contract(ensures=[('C12:multiplier-forced-odd', 'r.spec_multiplier() == multiplier | 1 && r.spec_addend() == addend')])
    nk = im.sub(['fn new_keyed'])
    nk.insert_before_tok(nk.lo, '#[verifier::external_body]\n    ')
    o, c = nk.body()
    from weave import Repl
    nk.repls.append(Repl(nk.ct[o + 1][2], nk.ct[c - 1][3], ' MultiplicativeHash { multiplier: 1, addend: 0 } ', 'D-body:new_keyed'))
    u.dropped.append('multiplicative_hash.rs: body of `new_keyed` (SHA-256 via the extendhash crate, const-evaluated by rustc); '
                     'the resulting constants are checked on the real crate by the Kani twin')
    mix = u.under_contract(im.sub(['fn mix']), props)
    mix.air = 'multiplicative_hash::MultiplicativeHash::mix'
    mix.contract(ensures=[('C12:mix-is-multiply-add-mod-2^64', 'r == mix_spec(self.spec_multiplier(), self.spec_addend(), value)')])
    mix.body_start('proof {\n            reveal(mix_spec);\n            assert(value as int * self.multiplier as int == self.multiplier as int * value as int) by (nonlinear_arith);\n        }')
    mp = u.under_contract(im.sub(['fn map']), props)
    mp.air = 'multiplicative_hash::MultiplicativeHash::map'
    mp.contract(ensures=[('C12:map-is-mix-then-reduce',
                          'r as int == reduce_spec(mix_spec(self.spec_multiplier(), self.spec_addend(), value), range)')])
    u.text('} // mod multiplicative_hash\n')


def weave_mixers(u):
    """The two `const` mixers in sharded.rs: values pinned (assumed here, discharged by the Kani twin)."""
    for name, m, a in (('PRIMARY_MIXER', 'pm()', 'pa()'), ('SECONDARY_MIXER', 'sm()', 'sa()')):
        c = u.item('src/sharded.rs', ['const ' + name])
        c.insert_before_tok(c.item.lo, '#[verifier::external_body]\nexec ')
        from weave import Repl
        eq, _ = c._find('=', 0)
        c.repls.append(Repl(c.ct[eq][2], c.ct[eq][3],
                            '\n    ensures %s.spec_multiplier() == %s && %s.spec_addend() == %s\n{' % (name, m, name, a),
                            'T8-const-block'))
        c.repls.append(Repl(c.ct[c.hi][2], c.ct[c.hi][3], '}', 'T8-const-block'))
    u.trusted_notes.append('PRIMARY_MIXER / SECONDARY_MIXER: values assumed in the Verus unit; compared with the '
                           'hashlib-derived constants on the real crate by the Kani harness kv_twin::mixer_constants')


def build(u):
    hash_prelude(u)
    u.text('use std::path::PathBuf;\nuse std::sync::Arc;\nuse std::sync::atomic::AtomicU8;\n')
    weave_hash(u)
    u.text('pub mod trigger {\nuse super::*;\n')
    st = u.item('src/trigger.rs', ['struct PeriodicTrigger'])
    st.drop_attrs()
    u.text('}\n')
    k = u.item('src/lib.rs', ['struct Key'])
    k.drop_attrs()
    u.text('pub mod sharded {\nuse super::*;\nuse crate::multiplicative_hash::MultiplicativeHash;\nuse crate::trigger::PeriodicTrigger;\n')
    weave_mixers(u)
    cs = u.item('src/sharded.rs', ['struct Cache'])
    cs.drop_attrs()
    im = u.item('src/sharded.rs', ['impl Cache'])
    dropped = im.drop_members_except({'other_shard_id', 'shard_ids'})
    u.dropped.append('sharded.rs (unit U3): members of impl Cache not under contract in this unit: ' + ', '.join(dropped))
    o = u.under_contract(im.sub(['fn other_shard_id']), SERVES)
    o.air = 'sharded::Cache::other_shard_id'
    o.contract(requires=[('C12:other-in-range', 'other < self.num_shards')],
               ensures=[('C12:collision-fixup', 'r as int == other_shard_spec(base as int, other as int, self.num_shards as int)')])
    s = u.under_contract(im.sub(['fn shard_ids']), SERVES)
    s.air = 'sharded::Cache::shard_ids'
    s.contract(requires=[('C12:at-least-two-shards', 'self.num_shards >= 2')],
               ensures=[('C12:shard-ids-are-the-documented-function-of-the-hashes',
                         '(r.0 as int, r.1 as int) == shard_ids_spec(key.hash, key.secondary_hash, self.num_shards)'),
                        ('C12:two-distinct-shards-in-range', 'r.0 < self.num_shards && r.1 < self.num_shards && r.0 != r.1')])
    s.body_start('proof { lemma_shard_ids(key.hash, key.secondary_hash, self.num_shards); }')
    u.text('} // mod sharded\n')
    return u
