"""U1: the eviction planner, second_chance::Update::new (verbatim body)."""

SERVES = ['C08', 'C07']

KEY = '|e: T| e.spec_rank()'
ACC = '|e: T| e.spec_accessed()'


def weave_planner(u, SERVES=SERVES):
    u.text('pub mod second_chance {\nuse super::*;\n')

    # --- trait Entry: spec twins of the two observers (insertions only) -------------------
    t = u.item('src/second_chance.rs', ['trait Entry'])
    rank = t.sub(['fn rank'])
    rank.insert_before_tok(rank.fn_kw(), 'spec fn spec_rank(&self) -> Self::Rank;\n    ')
    rank.contract(ensures=[('C08 C07:rank-is-a-function-of-the-entry', 'r == self.spec_rank()')])
    acc = t.sub(['fn accessed'])
    acc.insert_before_tok(acc.fn_kw(), 'spec fn spec_accessed(&self) -> bool;\n    ')
    acc.contract(ensures=[('C08 C07:accessed-is-a-function-of-the-entry', 'r == self.spec_accessed()')])

    s = u.item('src/second_chance.rs', ['struct Update'])

    # --- impl Update: new() -------------------------------------------------------------
    im = u.item('src/second_chance.rs', ['impl Update'])
    new = u.under_contract(im.sub(['fn new']), SERVES)
    new.air = 'second_chance::Update::new'
    new.contract(
        ensures=[
            ('C08 C07:plan-equals-classical-clock',
             'exists|it: _| #![trigger call_ensures(core::iter::IntoIterator::into_iter, (entries,), it)]\n'
             '        call_ensures(core::iter::IntoIterator::into_iter, (entries,), it)\n'
             '        && (vstd::std_specs::iter::IteratorSpec::obeys_prophetic_iter_laws(&it) && vstd::std_specs::iter::IteratorSpec::remaining(&it).len() <= usize::MAX ==>\n'
             '            plan_is_second_chance(vstd::std_specs::iter::IteratorSpec::remaining(&it), capacity as nat, %s, %s, r.to_evict@, r.to_move_back@))'
             % (KEY, ACC)),
        ])
    new.body_start('broadcast use axiom_range_usize;')
    n18 = new.rebind_size_hint()
    if n18:
        u.dropped.append('T18: %d call(s) `x.size_hint()` spelled `kv_size_hint(&x)` (stand-in with the assumed contract of Iterator::size_hint)' % n18)
    # ghost snapshot of the collected input
    new.insert_after('collect ( ) ;', '\n        let ghost s0 = sorted_entries@;')
    # the sort key closure: say what it returns (any of the by-key sorts; same assumed contract).
    # If no such call is present the sortedness assertion below simply fails: a violation, not a lost anchor.
    for meth in ('sort_by_cached_key', 'sort_by_key', 'sort_unstable_by_key'):
        pat = meth + ' ( | e | e . rank ( ) )'
        if new._find(pat, count=True) == 1:
            new.insert_after(meth + ' ( | e', ': &T')
            new.insert_after(meth + ' ( | e |', ' -> (k: T::Rank) ensures k == e.spec_rank() {')
            new.insert_after(meth + ' ( | e | e . rank ( )', ' }')
    new.insert_before('let must_remove =',
                      'let ghost p = sorted_entries@;\n'
                      '        let ghost q0 = init_queue(p, %s);\n'
                      '        proof {\n'
                      '            lemma_scan_init(q0, (p.len() - capacity) as nat);\n'
                      '            assert(sorted_by(p, %s));\n'
                      '        }\n        ' % (ACC, KEY))
    new.insert_after('for entry in', ' it:')
    K = '(to_evict@.len() + to_move_back@.len())'
    new.loop_contract(0, invariant=[
        ('C08:scan-frame', 'it.seq() == p && p.len() >= capacity && must_remove == p.len() - capacity && q0 == init_queue(p, %s)' % ACC),
        ('C08:sorted-permutation-of-input', 'sorted_by(p, %s) && p.to_multiset() == s0.to_multiset() && p.len() == s0.len()' % KEY),
        ('C08:scan-is-a-clock-prefix', 'scan_state(q0, %s as int, to_evict@, to_move_back@, must_remove as nat)' % K),
    ], invariant_except_break=[
        ('C08:scan-position', '%s == it.index()' % K),
    ], ensures=[
        ('C08:scan-exit', 'to_evict@.len() == must_remove || %s == p.len()' % K),
    ])
    new.insert_before('to_move_back . push ( entry )',
                      'proof { lemma_scan_flagged(q0, %s as int, to_evict@, to_move_back@, must_remove as nat); }\n                ' % K)
    new.insert_before('to_evict . push ( entry )',
                      'proof { lemma_scan_unflagged(q0, %s as int, to_evict@, to_move_back@, must_remove as nat); }\n                ' % K)
    new.insert_before('if to_evict . len ( ) < must_remove',
                      'let ghost ev0 = to_evict@;\n        let ghost mb0 = to_move_back@;\n        ')
    new.insert_after('if to_evict . len ( ) < must_remove {',
                     '\n            proof {\n'
                     '                lemma_scan_done_exhausted(q0, ev0, mb0, must_remove as nat);\n'
                     '            }')
    new.insert_before('Self { to_evict , to_move_back , }',
                      'proof {\n'
                      '            if ev0.len() == must_remove {\n'
                      '                lemma_scan_done_quota(q0, (ev0.len() + mb0.len()) as int, ev0, mb0, must_remove as nat);\n'
                      '            }\n'
                      '            assert(sorted_by(p, %s));\n'
                      '            assert(plan_is_second_chance(s0, capacity as nat, %s, %s, to_evict@, to_move_back@));\n'
                      '        }\n        ' % (KEY, KEY, ACC))
    u.text('} // mod second_chance\n')
    return new


def build(u):
    u.prelude('std_vec.rs')
    u.prelude('clock.rs')
    weave_planner(u)
    return u
