"""U2: the periodic trigger (trigger.rs), verbatim bodies.  T4: the closure passed to
`COUNTER.with` is lifted into a nested fn; T5: the RefCell is the ghost countdown `w.counter`."""

SERVES = ['C10']
WORLD = 'Tracked(w): Tracked<&mut World>'


def weave_trigger(u, props=('C10',)):
    u.text('pub mod trigger {\nuse super::*;\n')
    props = list(props)

    reg = u.under_contract(u.item('src/trigger.rs', ['fn regenerate']), props)
    reg.air = 'trigger::regenerate'
    reg.attr('#[verifier::exec_allows_no_decreases_clause]')
    reg.add_param(WORLD)
    reg.contract(ensures=[
        ('C10:fresh-draw-is-positive', 'r > 0'),
        ('C10:countdown-restarts-from-the-draw', '*final(w) == (World { counter: r, ..*old(w) })'),
    ])
    reg.loop_contract(0, invariant=[('C10:regenerate-frame', '*w == *old(w)')])
    reg.add_arg('c . replace', 'Tracked(w)')
    u.trusted_notes.append('regenerate: partial correctness only (its retry loop terminates with probability 1; '
                           'exec_allows_no_decreases_clause)')

    obs = u.under_contract(u.item('src/trigger.rs', ['fn observe']), props)
    obs.air = r'trigger::observe(::closure_body)?'
    obs.add_param(WORLD)
    CONTRACT = ('\n    ensures\n        observe_step(old(w).counter, weight, r, final(w).counter),   // @L C10:observe-transition\n'
                '        *final(w) == (World { counter: final(w).counter, ..*old(w) }),   // @L C10:observe-frame\n')
    obs.contract(ensures=[
        ('C10:observe-transition', 'observe_step(old(w).counter, weight, r, final(w).counter)'),
        ('C10:observe-frame', '*final(w) == (World { counter: final(w).counter, ..*old(w) })'),
    ])
    # T4: `COUNTER.with(|c| BODY)`  ->  `fn closure_body(c, weight, w) -> bool BODY  closure_body(counter_cell(), weight, w)`
    obs.replace('COUNTER . with ( | c |',
                'fn closure_body(c: &RefCell<u64>, weight: u64, %s) -> (r: bool)%s' % (WORLD, CONTRACT),
                'T4-closure-lift')
    o, c = obs.body()
    # the `)` that closes `.with(` is the last token before the fn's closing brace
    if obs.ct[c - 1][1] != ')':
        from extract import ExtractError
        raise ExtractError('observe: expected `COUNTER.with(..)` to be the whole body')
    from weave import Repl
    obs.repls.append(Repl(obs.ct[c - 1][2], obs.ct[c - 1][3],
                          ' closure_body(counter_cell(), weight, Tracked(w))', 'T4-closure-call'))
    obs.add_arg('c . borrow', 'Tracked(w)')
    obs.add_arg('c . replace', 'Tracked(w)')
    obs.add_arg('regenerate', 'Tracked(w)')
    # first-use case: name the draw for the existential in observe_step
    obs.insert_before('c . replace ( updated - weight )',
                      'proof { assert(updated > weight && (updated - weight) as u64 == (updated - weight) as u64); }\n            ')

    st = u.item('src/trigger.rs', ['struct PeriodicTrigger'])
    st.drop_attrs()   # derive(Clone, Copy, Debug), repr(transparent): no behaviour
    st.replace('pub ( crate ) struct', 'pub struct', 'T9-visibility')
    u.text('impl Clone for PeriodicTrigger { #[verifier::external_body] fn clone(&self) -> (r: Self) ensures r == *self { *self } }\n'
           'impl Copy for PeriodicTrigger {}\n')
    u.dropped.append('trigger.rs: #[derive(Clone, Copy, Debug)] #[repr(transparent)] on PeriodicTrigger '
                     '(Clone/Copy re-declared as a bitwise copy)')

    im = u.item('src/trigger.rs', ['impl PeriodicTrigger'])
    im.drop_inner_attrs('# [ inline ( always ) ]')
    new = u.under_contract(im.sub(['fn new']), props)
    new.insert_before_tok(new.lo, 'pub closed spec fn spec_scale(&self) -> u64 { self.scale }\n\n    ')
    new.air = 'trigger::PeriodicTrigger::new'
    new.contract(ensures=[
        ('C10:scale-is-ceil-of-max-over-period', 'r.spec_scale() as int == scale_spec(period)'),
    ])
    # the arithmetic lemma is needed before the scale is computed, wherever that is spelled
    if new._find('let scale =', count=True) == 1:
        new.insert_before('let scale =', 'proof { lemma_scale_spec(period); }\n        ')
    else:
        new.insert_before('PeriodicTrigger {', 'proof { lemma_scale_spec(period); }\n        ', nth=-1)
    ev = u.under_contract(im.sub(['fn event']), props)
    ev.air = 'trigger::PeriodicTrigger::event'
    ev.add_param(WORLD)
    ev.contract(ensures=[
        ('C10:event-is-one-observation-of-weight-scale', 'observe_step(old(w).counter, self.spec_scale(), r, final(w).counter)'),
        ('C10:event-frame', '*final(w) == (World { counter: final(w).counter, ..*old(w) })'),
    ])
    ev.add_arg('self . weighted_event', 'Tracked(w)')
    we = u.under_contract(im.sub(['fn weighted_event']), props)
    we.air = 'trigger::PeriodicTrigger::weighted_event'
    we.add_param(WORLD)
    we.contract(ensures=[
        ('C10:weighted-event-saturates',
         'observe_step(old(w).counter, if self.spec_scale() as int * count as int > u64::MAX as int { u64::MAX } else { (self.spec_scale() as int * count as int) as u64 }, r, final(w).counter)'),
        ('C10:event-frame', '*final(w) == (World { counter: final(w).counter, ..*old(w) })'),
    ])
    we.add_arg('observe', 'Tracked(w)')
    u.text('} // mod trigger\n')
    u.dropped.append('trigger.rs: the `thread_local! { static COUNTER }` declaration (replaced by counter_cell() and the ghost field w.counter)')
    return dict(regenerate=reg, observe=obs, new=new, event=ev, weighted_event=we)


def build(u):
    u.prelude('world_min.rs')
    u.prelude('trigger_env.rs')
    weave_trigger(u)
    return u
