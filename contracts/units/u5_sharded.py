"""U5: the sharded front-end (sharded.rs) on top of U4 (the whole of U4 is part of this unit, so that
callers are checked against the contracts of the very functions verified next to them)."""
import importlib.util
import os

SERVES = ['C01', 'C02', 'C03', 'C05', 'C06', 'C07', 'C09', 'C10', 'C11', 'C12', 'C15', 'C16', 'C17', 'C18', 'C19', 'C20']
VERUS_FLAGS = ['--no-trait-conflicts']
W = 'Tracked(w): Tracked<&mut World>'
TW = 'Tracked(w)'


def _unit(name):
    p = os.path.join(os.path.dirname(os.path.abspath(__file__)), name + '.py')
    spec = importlib.util.spec_from_file_location(name, p)
    m = importlib.util.module_from_spec(spec)
    spec.loader.exec_module(m)
    return m


def build(u):
    u4 = _unit('u4_rawfs')
    u3 = _unit('u3_hash')
    u4.build(u)
    u.features = ['allocator_api']
    u.prelude('sharded_env.rs')
    u3.hash_prelude_specs_only(u)
    u3.weave_hash(u, props=['C12'])
    k = u.item('src/lib.rs', ['struct Key'])
    k.drop_attrs()
    u.text("impl<'a> Clone for Key<'a> { #[verifier::external_body] fn clone(&self) -> (r: Self) ensures r == *self { *self } }\nimpl<'a> Copy for Key<'a> {}\n")
    u.dropped.append('lib.rs: #[derive(Clone, Copy, Debug)] on Key (Clone/Copy re-declared as a bitwise copy)')
    weave_sharded(u, u4, u3)
    return u


def weave_sharded(u, u4, u3):
    from weave import Repl
    u.text('pub mod sharded {\n' + u4.MOD_HEAD + 'use crate::cache_dir::CacheDir;\n#[allow(unused_imports)]\nuse crate::benign_error::is_absent_file_error;\nuse crate::cache_dir::*;\nuse crate::trigger::PeriodicTrigger;\n'
           'use crate::std::fs::File;\nuse crate::multiplicative_hash::MultiplicativeHash;\nuse crate::Key;\n'
           'use crate::KISMET_TEMPORARY_SUBDIRECTORY as TEMP_SUBDIR;\nuse ::std::sync::atomic::Ordering::Relaxed;\nuse crate::rand;\n')
    INV = ('C02 C18:valid-on-every-exit', 'final(w).inv()')
    u.item('src/sharded.rs', ['const MAINTENANCE_SCALE'])
    u3.weave_mixers(u)
    cs = u.item('src/sharded.rs', ['struct Cache'])
    cs.drop_attrs()
    u.dropped.append('sharded.rs: #[derive(Clone, Debug)] on Cache')

    # format_id: a format! call (outside Verus): assumed contract, observed natively in the thorough tier
    fi = u.item('src/sharded.rs', ['fn format_id'])
    fi.drop_attrs()
    fi.attr('#[verifier::external_body]')
    fi.contract(ensures=[('', 'string_bytes_u(&r) == fmt_shard(shard)')])
    u.trusted_notes.append('sharded::format_id is external_body (format!): assumed to return fmt_shard(i), a single component starting with a dot, '
                           'different from ".kismet_temp" and injective in i (axiom_fmt_shard); the real names are observed natively (bounded) in the thorough tier of C12')

    st = u.item('src/sharded.rs', ['struct Shard'])
    st.insert_before('struct Shard', 'pub ')
    for fld in ('id :', 'shard_dir :', 'trigger :', 'capacity :'):
        st.insert_before(fld, 'pub ')

    u.text('''
/// The directory of shard `i` of the cache rooted at `base`.
/// `c` is `t / n` rounded up (the smallest per-shard capacity whose `n` shards hold `t` files).
pub open spec fn shard_cap_is(c: int, t: int, n: int) -> bool {
    c * n >= t && (c - 1) * n < t
}

pub proof fn lemma_ceil_div(t: int, n: int)
    requires
        n > 0,
        t >= 0,
    ensures
        shard_cap_is(t / n + (if t % n != 0 { 1int } else { 0int }), t, n),
{
    assert(t == n * (t / n) + t % n && 0 <= t % n < n) by (nonlinear_arith)
        requires n > 0, t >= 0;
    let c = t / n + (if t % n != 0 { 1int } else { 0int });
    assert(c * n >= t && (c - 1) * n < t) by (nonlinear_arith)
        requires t == n * (t / n) + t % n, 0 <= t % n < n, c == t / n + (if t % n != 0 { 1int } else { 0int }), n > 0;
}

pub open spec fn shard_dir_of(base: PathV, i: usize) -> PathV {
    child(base, fmt_shard(i))
}

pub open spec fn entry_in(base: PathV, i: int, name: Seq<u8>) -> PathV {
    child(shard_dir_of(base, i as usize), name)
}

impl Cache {
    pub closed spec fn spec_root(&self) -> PathV { pbv(self.base_dir) }
    pub closed spec fn spec_n(&self) -> usize { self.num_shards }
    pub closed spec fn spec_loads(&self) -> int { self.load_estimates@.len() as int }
    pub closed spec fn spec_shard_cap(&self) -> usize { self.shard_capacity }
    pub closed spec fn spec_trig(&self) -> PeriodicTrigger { self.trigger }

    /// Handle invariant established by `new`.
    pub open spec fn wf(&self) -> bool {
        self.spec_n() >= 2 && self.spec_loads() == self.spec_n()
    }

    /// Every shard directory of this cache is a configured read-write cache directory (a function of the
    /// configuration pair (cache_dirs, ro_roots) only).
    pub open spec fn rw_cfg(&self, cfg: (Set<PathV>, Set<PathV>)) -> bool {
        &&& self.wf()
        &&& forall|i: usize| i < self.spec_n() ==> #[trigger] cfg.0.contains(shard_dir_of(self.spec_root(), i))
        &&& forall|i: usize, n: Seq<u8>| i < self.spec_n() ==> !under_ro_of(cfg.1, #[trigger] child(shard_dir_of(self.spec_root(), i), n))
        &&& forall|i: usize, n: Seq<u8>| i < self.spec_n() ==> !under_ro_of(cfg.1, #[trigger] child(child(shard_dir_of(self.spec_root(), i), temp_name()), n))
        &&& forall|i: usize| i < self.spec_n() ==> !under_ro_of(cfg.1, #[trigger] shard_dir_of(self.spec_root(), i)) && !under_ro_of(cfg.1, child(shard_dir_of(self.spec_root(), i), temp_name()))
    }

    pub open spec fn rw(&self, w: World) -> bool {
        self.rw_cfg(w.cfg())
    }

    /// Every shard directory is configured: a read-write cache directory, or the root lies under a read-only root.
    pub open spec fn configured_cfg(&self, cfg: (Set<PathV>, Set<PathV>)) -> bool {
        under_ro_of(cfg.1, self.spec_root()) || forall|i: usize| i < self.spec_n() ==> #[trigger] cfg.0.contains(shard_dir_of(self.spec_root(), i))
    }
}

pub proof fn lemma_shard_configured(c: Cache, w: World, i: usize)
    requires
        c.configured_cfg(w.cfg()),
        i < c.spec_n(),
    ensures
        w.configured_dir(shard_dir_of(c.spec_root(), i)),
{
    assert(w.cfg().0 == w.cache_dirs && w.cfg().1 == w.ro_roots);
    if under_ro_of(w.ro_roots, c.spec_root()) {
        let r = choose|r: PathV| #[trigger] w.ro_roots.contains(r) && r.is_prefix_of(c.spec_root());
        assert(r.is_prefix_of(shard_dir_of(c.spec_root(), i)));
    } else {
        assert(w.cfg().0.contains(shard_dir_of(c.spec_root(), i)));
    }
}

impl Shard {
    pub open spec fn at(&self, root: PathV) -> bool {
        pbv(self.shard_dir) == shard_dir_of(root, self.id)
    }
}

/// Maintenance of any shard of this cache, on every exit: directories untouched, nothing created or re-bound;
/// whatever disappeared is an evictable entry of some shard directory or a stale temporary file of some shard;
/// whatever was re-stamped is an entry of some shard directory.
pub open spec fn sharded_maint_frame(old: World, fin: World, root: PathV, n: usize) -> bool {
    &&& fin.dirs == old.dirs
    &&& fin.published == old.published
    &&& forall|p: PathV| #[trigger] fin.files.contains_key(p) ==> old.files.contains_key(p) && fin.files[p] == old.files[p]
    &&& forall|p: PathV| old.files.contains_key(p) && !(#[trigger] fin.files.contains_key(p)) ==> exists|i: usize| i < n && (#[trigger] shard_dir_of(root, i) == parent(p) && old.in_cache_namespace(p)
        || (p.len() > 0 && parent(p) == child(shard_dir_of(root, i), temp_name())))
    &&& forall|ino: InodeId| #[trigger] old.inodes.contains_key(ino) ==> fin.inodes.contains_key(ino) && (fin.inodes[ino] == old.inodes[ino] || raw_cache::restamped(old.inodes[ino], fin.inodes[ino], old, fin))
}

pub proof fn lemma_maint_from_cleanup(old: World, root: PathV, n: usize, i: usize)
    requires
        i < n,
    ensures
        forall|fin: World| #[trigger] cleanup_frame(old, fin, shard_dir_of(root, i)) ==> sharded_maint_frame(old, fin, root, n),
{
    assert forall|fin: World| #[trigger] cleanup_frame(old, fin, shard_dir_of(root, i)) implies sharded_maint_frame(old, fin, root, n) by {
        assert forall|p: PathV| old.files.contains_key(p) && !(#[trigger] fin.files.contains_key(p)) implies exists|j: usize| j < n && (#[trigger] shard_dir_of(root, j) == parent(p) && old.in_cache_namespace(p)
            || (p.len() > 0 && parent(p) == child(shard_dir_of(root, j), temp_name()))) by {
            assert(shard_dir_of(root, i) == parent(p) && old.in_cache_namespace(p) || (p.len() > 0 && parent(p) == child(shard_dir_of(root, i), temp_name())));
        }
    }
}

/// `rw` gives the per-directory configuration facts that `CacheDir` operations on shard `i` require.
pub proof fn lemma_shard_rw(c: Cache, w: World, i: usize)
    requires
        c.rw(w),
        i < c.spec_n(),
    ensures
        w.cache_dirs.contains(shard_dir_of(c.spec_root(), i)),
        !w.under_ro(shard_dir_of(c.spec_root(), i)),
        !w.under_ro(child(shard_dir_of(c.spec_root(), i), temp_name())),
        forall|n: Seq<u8>| !w.under_ro(#[trigger] child(shard_dir_of(c.spec_root(), i), n)),
        forall|n: Seq<u8>| !w.under_ro(#[trigger] child(child(shard_dir_of(c.spec_root(), i), temp_name()), n)),
{
    assert(w.cfg().0 == w.cache_dirs && w.cfg().1 == w.ro_roots);
    assert(c.rw_cfg(w.cfg()));
    assert(w.cfg().0.contains(shard_dir_of(c.spec_root(), i)));
}

pub proof fn lemma_sharded_from_write(old: World, fin: World, root: PathV, n: usize, i: usize, name: Seq<u8>, value: PathV)
    requires
        i < n,
        write_frame(old, fin, shard_dir_of(root, i), name, value),
    ensures
        sharded_frame(old, fin, root, n, name, value),
        forall|p: PathV| #[trigger] fin.files.contains_key(p) && !old.files.contains_key(p) ==> p == child(shard_dir_of(root, i), name),
{
    assert forall|p: PathV| old.files.contains_key(p) && !(#[trigger] fin.files.contains_key(p)) implies p == value || exists|j: usize| j < n && (#[trigger] shard_dir_of(root, j) == parent(p) && old.in_cache_namespace(p)
        || (p.len() > 0 && parent(p) == child(shard_dir_of(root, j), temp_name()))) by {
        if p != value {
            assert(shard_dir_of(root, i) == parent(p) && old.in_cache_namespace(p) || (p.len() > 0 && parent(p) == child(shard_dir_of(root, i), temp_name())));
        }
    }
    assert forall|p: PathV| #[trigger] fin.files.contains_key(p) && !old.files.contains_key(p) implies exists|j: usize| j < n && p == child(#[trigger] shard_dir_of(root, j), name) by {
        assert(p == child(shard_dir_of(root, i), name));
    }
    assert forall|d: PathV| #[trigger] fin.dirs.contains(d) && !old.dirs.contains(d) implies exists|j: usize| j < n && d.is_prefix_of(#[trigger] shard_dir_of(root, j)) by {
        assert(d.is_prefix_of(shard_dir_of(root, i)));
    }
}

pub proof fn lemma_sharded_then_maint(old: World, m: World, fin: World, root: PathV, n: usize, name: Seq<u8>, value: PathV)
    requires
        sharded_frame(old, m, root, n, name, value),
        sharded_maint_frame(m, fin, root, n),
        m.cache_dirs == old.cache_dirs,
    ensures
        sharded_frame(old, fin, root, n, name, value),
        forall|p: PathV| #[trigger] fin.files.contains_key(p) ==> m.files.contains_key(p),
{
    assert forall|p: PathV| old.files.contains_key(p) && !(#[trigger] fin.files.contains_key(p)) implies p == value || exists|j: usize| j < n && (#[trigger] shard_dir_of(root, j) == parent(p) && old.in_cache_namespace(p)
        || (p.len() > 0 && parent(p) == child(shard_dir_of(root, j), temp_name()))) by {
        if m.files.contains_key(p) {
            let j = choose|j: usize| j < n && (#[trigger] shard_dir_of(root, j) == parent(p) && m.in_cache_namespace(p) || (p.len() > 0 && parent(p) == child(shard_dir_of(root, j), temp_name())));
            assert(shard_dir_of(root, j) == parent(p) && old.in_cache_namespace(p) || (p.len() > 0 && parent(p) == child(shard_dir_of(root, j), temp_name())));
        }
    }
}

/// C11: where the one possibly-new link may appear decides that no second copy can arise.
pub proof fn lemma_single_copy(old: World, fin: World, pa: PathV, pb: PathV, target: PathV, existed_b: bool)
    requires
        pa != pb,
        forall|p: PathV| #[trigger] fin.files.contains_key(p) && !old.files.contains_key(p) ==> p == target,
        existed_b ==> target == pb && old.files.contains_key(pb),
        !existed_b ==> target == pa && !old.files.contains_key(pb),
    ensures
        !(old.files.contains_key(pa) && old.files.contains_key(pb)) ==> !(fin.files.contains_key(pa) && fin.files.contains_key(pb)),
{
}

/// Two different shards of one root have different entry paths for the same name.
pub proof fn lemma_entries_differ(root: PathV, i: usize, j: usize, name: Seq<u8>)
    requires
        i != j,
    ensures
        child(shard_dir_of(root, i), name) != child(shard_dir_of(root, j), name),
        shard_dir_of(root, i) != shard_dir_of(root, j),
{
    broadcast use group_sharded;
    lemma_child(root, fmt_shard(i));
    lemma_child(root, fmt_shard(j));
    lemma_child(shard_dir_of(root, i), name);
    lemma_child(shard_dir_of(root, j), name);
    assert(fmt_shard(i) != fmt_shard(j));
}

/// `temp_dir`: stale temporary files of one shard may go, directories leading to a shard's temp dir may appear.
pub open spec fn sharded_temp_frame(old: World, fin: World, root: PathV, n: usize) -> bool {
    &&& fin.inodes == old.inodes
    &&& fin.published == old.published
    &&& forall|d: PathV| #[trigger] old.dirs.contains(d) ==> fin.dirs.contains(d)
    &&& forall|d: PathV| #[trigger] fin.dirs.contains(d) && !old.dirs.contains(d) ==> exists|i: usize| i < n && d.is_prefix_of(#[trigger] child(shard_dir_of(root, i), temp_name()))
    &&& forall|p: PathV| #[trigger] fin.files.contains_key(p) ==> old.files.contains_key(p) && fin.files[p] == old.files[p]
    &&& forall|p: PathV| old.files.contains_key(p) && !(#[trigger] fin.files.contains_key(p)) ==> exists|i: usize| i < n && p.len() > 0 && parent(p) == #[trigger] child(shard_dir_of(root, i), temp_name())
}

/// The copy a sharded directory returns: the primary candidate's, else the secondary's.
pub open spec fn sharded_lookup(links: Map<PathV, InodeId>, root: PathV, n: usize, key: Key) -> Option<InodeId> {
    let s = shard_ids_spec(key.hash, key.secondary_hash, n);
    if links.contains_key(entry_in(root, s.0, str_bytes(key.name))) {
        Some(links[entry_in(root, s.0, str_bytes(key.name))])
    } else if links.contains_key(entry_in(root, s.1, str_bytes(key.name))) {
        Some(links[entry_in(root, s.1, str_bytes(key.name))])
    } else {
        None
    }
}

/// Preparing a temporary directory changes what no lookup returns.
pub proof fn lemma_sharded_lookup_temp_frame(old: World, fin: World, root: PathV, n: usize, key: Key)
    requires
        sharded_temp_frame(old, fin, root, n),
    ensures
        sharded_lookup(fin.files, root, n, key) == sharded_lookup(old.files, root, n, key),
{
    let s = shard_ids_spec(key.hash, key.secondary_hash, n);
    let p1 = entry_in(root, s.0, str_bytes(key.name));
    let p2 = entry_in(root, s.1, str_bytes(key.name));
    assert(p1.len() == root.len() + 2 && p2.len() == root.len() + 2);
    assert(parent(p1).len() == root.len() + 1 && parent(p2).len() == root.len() + 1);
    assert forall|i: usize| (#[trigger] child(shard_dir_of(root, i), temp_name())).len() == root.len() + 2 by {}
    if old.files.contains_key(p1) && !fin.files.contains_key(p1) {
        assert(false);
    }
    if old.files.contains_key(p2) && !fin.files.contains_key(p2) {
        assert(false);
    }
}

/// Nothing directly inside a shard's `.kismet_temp` is ever what a sharded lookup returns.
pub proof fn lemma_sharded_temp_blind(root: PathV, n: usize, j: usize)
    ensures
        forall|links: Map<PathV, InodeId>, nm: Seq<u8>, i: InodeId, key: Key| #[trigger] sharded_lookup(links.insert(child(child(shard_dir_of(root, j), temp_name()), nm), i), root, n, key) == sharded_lookup(links, root, n, key),
{
    assert forall|links: Map<PathV, InodeId>, nm: Seq<u8>, i: InodeId, key: Key| #[trigger] sharded_lookup(links.insert(child(child(shard_dir_of(root, j), temp_name()), nm), i), root, n, key) == sharded_lookup(links, root, n, key) by {
        let s = shard_ids_spec(key.hash, key.secondary_hash, n);
        assert(entry_in(root, s.0, str_bytes(key.name)).len() == root.len() + 2);
        assert(entry_in(root, s.1, str_bytes(key.name)).len() == root.len() + 2);
        assert(child(child(shard_dir_of(root, j), temp_name()), nm).len() == root.len() + 3);
    }
}

pub proof fn lemma_temp_frames(old: World, o2: World, root: PathV, n: usize, i: usize)
    requires
        i < n,
        o2.same_fs(old),
        o2.published == old.published,
    ensures
        sharded_temp_frame(old, o2, root, n),
        forall|a: World, t: int| #[trigger] temp_frame(o2, a, child(shard_dir_of(root, i), temp_name()), t) && a.published == old.published ==> sharded_temp_frame(old, a, root, n),
        forall|a: World, b: World| #[trigger] sharded_temp_frame(old, a, root, n) && b.files == a.files && b.inodes == a.inodes && b.published == a.published && (forall|d: PathV| #[trigger] a.dirs.contains(d) ==> b.dirs.contains(d))
            && (forall|d: PathV| #[trigger] b.dirs.contains(d) ==> a.dirs.contains(d) || d.is_prefix_of(child(shard_dir_of(root, i), temp_name()))) && #[trigger] b.kept(a) ==> sharded_temp_frame(old, b, root, n),
{
    assert forall|a: World, t: int| #[trigger] temp_frame(o2, a, child(shard_dir_of(root, i), temp_name()), t) && a.published == old.published implies sharded_temp_frame(old, a, root, n) by {
        assert forall|p: PathV| old.files.contains_key(p) && !(#[trigger] a.files.contains_key(p)) implies exists|j: usize| j < n && p.len() > 0 && parent(p) == #[trigger] child(shard_dir_of(root, j), temp_name()) by {
            assert(parent(p) == child(shard_dir_of(root, i), temp_name()));
        }
    }
    assert forall|a: World, b: World| #[trigger] sharded_temp_frame(old, a, root, n) && b.files == a.files && b.inodes == a.inodes && b.published == a.published && (forall|d: PathV| #[trigger] a.dirs.contains(d) ==> b.dirs.contains(d))
        && (forall|d: PathV| #[trigger] b.dirs.contains(d) ==> a.dirs.contains(d) || d.is_prefix_of(child(shard_dir_of(root, i), temp_name()))) && #[trigger] b.kept(a) implies sharded_temp_frame(old, b, root, n) by {
        assert forall|d: PathV| #[trigger] b.dirs.contains(d) && !old.dirs.contains(d) implies exists|j: usize| j < n && d.is_prefix_of(#[trigger] child(shard_dir_of(root, j), temp_name())) by {
            if !a.dirs.contains(d) {
                assert(d.is_prefix_of(child(shard_dir_of(root, i), temp_name())));
            }
        }
    }
}

/// Writes: like `sharded_maint_frame`, plus the one new entry, the consumed source and directories on the way
/// to a shard directory.
pub open spec fn sharded_frame(old: World, fin: World, root: PathV, n: usize, name: Seq<u8>, value: PathV) -> bool {
    &&& forall|d: PathV| #[trigger] old.dirs.contains(d) ==> fin.dirs.contains(d)
    &&& forall|d: PathV| #[trigger] fin.dirs.contains(d) && !old.dirs.contains(d) ==> exists|i: usize| i < n && d.is_prefix_of(#[trigger] shard_dir_of(root, i))
    &&& forall|p: PathV| #[trigger] fin.files.contains_key(p) && !old.files.contains_key(p) ==> exists|i: usize| i < n && p == child(#[trigger] shard_dir_of(root, i), name)
    &&& forall|p: PathV| old.files.contains_key(p) && !(#[trigger] fin.files.contains_key(p)) ==> p == value || exists|i: usize| i < n && (#[trigger] shard_dir_of(root, i) == parent(p) && old.in_cache_namespace(p)
        || (p.len() > 0 && parent(p) == child(shard_dir_of(root, i), temp_name())))
}
''')

    ish = u.item('src/sharded.rs', ['impl Shard'])
    rs = u.under_contract(ish.sub(['fn replace_shard']), ['C12', 'C16'])
    rs.air = 'sharded::Shard::replace_shard'
    rs.contract(
        ensures=[('C12 C16:shard-directory-is-the-formatted-id-below-the-same-root',
                  'r.id == id && r.trigger == self.trigger && r.capacity == self.capacity '
                  '&& (pbv(self.shard_dir).len() > 0 ==> pbv(r.shard_dir) == shard_dir_of(parent(pbv(self.shard_dir)), id))')])
    rs.body_start('broadcast use group_asref;\n        broadcast use group_sharded;')
    fe = u.under_contract(ish.sub(['fn file_exists']), ['C11', 'C16', 'C20', 'C06', 'C15', 'C12'])
    fe.air = 'sharded::Shard::file_exists'
    fe.add_param(W)
    fe.add_arg('std :: fs :: metadata', TW)
    fe.contract(
        requires=[('', 'old(w).inv()')],
        ensures=[INV, ('', 'final(w).kept(*old(w)) && final(w).listed == old(w).listed'),
                 ('C15 C16 C20:existence-probe-is-one-stat-and-changes-nothing',
                  'final(w).same_fs(*old(w)) && final(w).steps <= old(w).steps + 2 * (1) && final(w).opens == old(w).opens && final(w).published == old(w).published && final(w).now == old(w).now'),
                 ('C16:probe-leaves-the-shard-path-alone-for-valid-names', 'valid_key(str_bytes(name)) ==> pbv(final(self).shard_dir) == pbv(old(self).shard_dir)'),
                 ('', 'final(self).id == old(self).id && final(self).trigger == old(self).trigger && final(self).capacity == old(self).capacity'),
                 ('C11 C12:probe-reports-presence-truthfully',
                  'valid_key(str_bytes(name)) && final(w).hard_faults == old(w).hard_faults ==> r == (old(w).files.contains_key(child(pbv(old(self).shard_dir), str_bytes(name))) '
                  '|| old(w).dirs.contains(child(pbv(old(self).shard_dir), str_bytes(name))))')])
    fe.body_start('broadcast use group_asref;')

    ics = u.item('src/sharded.rs', ['impl CacheDir for Shard'])
    ics.drop_inner_attrs('# [ inline ]')
    for name, ret, body in (('temp_dir', 'PathV', 'child(pbv(self.shard_dir), temp_name())'), ('base_dir', 'PathV', 'pbv(self.shard_dir)'),
                            ('trigger', 'PeriodicTrigger', 'self.trigger'), ('capacity', 'usize', 'self.capacity')):
        m = ics.sub(['fn ' + name])
        m.insert_before_tok(m.fn_kw(), 'open spec fn spec_%s(&self) -> %s { %s }\n\n    ' % (name.replace('_dir', ''), ret, body))
    ics.sub(['fn temp_dir']).body_start('broadcast use group_asref;\n        proof { lemma_temp_subdir(); }')

    im = u.item('src/sharded.rs', ['impl Cache'])
    nw = u.under_contract(im.sub(['fn new']), ['C12', 'C10', 'C16', 'C07', 'C11'])
    nw.air = 'sharded::Cache::new'
    nw.contract(ensures=[
        ('C12:fewer-than-two-shards-are-treated-as-two', 'r.spec_n() == (if num_shards < 2 { 2usize } else { num_shards }) && r.wf()'),
        ('C12 C16:root-is-the-configured-directory', 'r.spec_root() == pbv(base_dir)'),
        ('C07 C11:a-shard-holds-the-total-capacity-divided-by-the-number-of-shards-rounded-up',
         'shard_cap_is(r.spec_shard_cap() as int, if total_capacity < r.spec_n() { r.spec_n() as int } else { total_capacity as int }, r.spec_n() as int)'),
    ])
    nw.insert_after_stmt('let shard_capacity =', '\n        proof { lemma_ceil_div(total_capacity as int, num_shards as int); }')
    nw.insert_before('let shard_capacity =', 'proof { assert(total_capacity as int / num_shards as int <= total_capacity as int / 2) by (nonlinear_arith) requires num_shards >= 2, total_capacity >= 0; }\n        ')
    rnd = u.under_contract(im.sub(['fn random_shard_id']), ['C12', 'C07'])
    rnd.air = 'sharded::Cache::random_shard_id'
    rnd.contract(requires=[('', 'self.spec_n() > 0')], ensures=[('C12:random-shard-is-a-shard-of-this-cache', 'r < self.spec_n()')])
    osi = u.under_contract(im.sub(['fn other_shard_id']), ['C12'])
    osi.air = 'sharded::Cache::other_shard_id'
    osi.contract(requires=[('C12:other-in-range', 'other < self.num_shards')],
                 ensures=[('C12:collision-fixup', 'r as int == other_shard_spec(base as int, other as int, self.num_shards as int)')])
    sid = u.under_contract(im.sub(['fn shard_ids']), ['C12'])
    sid.air = 'sharded::Cache::shard_ids'
    sid.contract(requires=[('C12:at-least-two-shards', 'self.num_shards >= 2')],
                 ensures=[('C12:shard-ids-are-the-documented-function-of-the-hashes',
                           '(r.0 as int, r.1 as int) == shard_ids_spec(key.hash, key.secondary_hash, self.num_shards)'),
                          ('C12:two-distinct-shards-in-range', 'r.0 < self.num_shards && r.1 < self.num_shards && r.0 != r.1')])
    sid.body_start('proof { lemma_shard_ids(key.hash, key.secondary_hash, self.num_shards); }')

    # T6: tuple parameter pattern
    sbl = u.under_contract(im.sub(['fn sort_by_load']), ['C12', 'C11'])
    sbl.air = 'sharded::Cache::sort_by_load'
    sbl.replace('( h1 , h2 ) : ( usize , usize )', 'kv_p: (usize, usize)', 'T6-tuple-param')
    sbl.contract(requires=[('', 'self.wf() && kv_p.0 < self.spec_n() && kv_p.1 < self.spec_n()')],
                 ensures=[('C12 C11:load-estimates-merely-choose-between-the-two-candidates', 'r == kv_p || r == (kv_p.1, kv_p.0)')])
    sbl.body_start('let (h1, h2) = kv_p;')
    u.dropped.append('T6: `fn sort_by_load(&self, (h1, h2): (usize, usize))` becomes `kv_p: (usize, usize)` + `let (h1, h2) = kv_p;`')

    sh = u.under_contract(im.sub(['fn shard']), ['C12', 'C16'])
    sh.air = 'sharded::Cache::shard'
    sh.contract(ensures=[('C12 C16:shard-directory-is-the-formatted-id-below-the-root',
                          'r.id == shard_id && r.at(self.spec_root()) && r.trigger == self.spec_trig() && r.capacity == self.spec_shard_cap()')])
    sh.body_start('broadcast use group_asref;\n        broadcast use group_sharded;')

    S1 = 'shard_ids_spec(key.hash, key.secondary_hash, self.spec_n()).0'
    S2 = 'shard_ids_spec(key.hash, key.secondary_hash, self.spec_n()).1'
    P1 = 'entry_in(self.spec_root(), %s, str_bytes(key.name))' % S1
    P2 = 'entry_in(self.spec_root(), %s, str_bytes(key.name))' % S2
    NAMEOK = 'valid_key(str_bytes(key.name))'
    BADNAME = '(!first_byte_ok(str_bytes(key.name)) || str_bytes(key.name).contains(0x2fu8))'
    REJ = '(err_kind(err_of(r)) == ErrorKind::InvalidInput)'   # the error is a rejected name (whatever the validation rejects)

    # ---- lookups -----------------------------------------------------------------------------
    for opname in ('get', 'touch'):
        g = u.under_contract(im.sub(['fn ' + opname]), ['C12', 'C11', 'C05', 'C06', 'C09', 'C13', 'C15', 'C16', 'C18', 'C19', 'C20', 'C01'])
        g.air = 'sharded::Cache::' + opname
        g.add_param(W)
        g.add_arg('shard . ' + opname, TW)
        g.add_arg('shard . replace_shard ( h2 ) . ' + opname, TW)
        ens = [
            INV, ('', 'final(w).kept(*old(w)) && final(w).listed == old(w).listed && final(w).published == old(w).published'),
            ('C16:invalid-names-fail-with-invalid-input-and-touch-nothing',
             '!first_byte_ok(str_bytes(key.name)) ==> r.is_err() && err_kind(err_of(r)) == ErrorKind::InvalidInput && *final(w) == *old(w)'),
            ('C15 C09:lookup-changes-nothing-but-the-access-time-of-an-entry-under-this-key',
             'final(w).atime_only(*old(w)) && forall|i: InodeId| #[trigger] old(w).inodes.contains_key(i) ==> '
             '(final(w).inodes[i].atime != old(w).inodes[i].atime ==> (old(w).files.contains_key(%s) && i == old(w).files[%s]) '
             '|| (old(w).files.contains_key(%s) && i == old(w).files[%s]))' % (P1, P1, P2, P2)),
            ('C18 C05 C06:error-is-an-invalid-name-or-a-real-fault', 'r.is_err() ==> %s || final(w).hard_faults > old(w).hard_faults' % REJ),
        ]
        if opname == 'get':
            ens += [
                ('C06 C20:at-most-two-opens-six-calls', 'final(w).steps <= old(w).steps + 2 * (6) && final(w).opens <= old(w).opens + 2'),
                ('C12 C11 C01 C19:primary-candidate-is-probed-first-then-the-secondary',
                 'r.is_ok() && r.unwrap().is_some() ==> !r.unwrap().unwrap().can_write() && r.unwrap().unwrap().offset() == 0 && ((old(w).files.contains_key(%s) && r.unwrap().unwrap().ino() == old(w).files[%s]) '
                 '|| (!old(w).files.contains_key(%s) && old(w).files.contains_key(%s) && r.unwrap().unwrap().ino() == old(w).files[%s]))' % (P1, P1, P1, P2, P2)),
                ('C12 C20:the-secondary-candidate-is-opened-only-when-the-primary-misses',
                 'r.is_ok() && old(w).files.contains_key(%s) ==> final(w).opens <= old(w).opens + 1' % P1),
                ('C12 C11 C05 C18:miss-means-absent-from-both-candidates',
                 'r.is_ok() && r.unwrap().is_none() ==> !old(w).files.contains_key(%s) && !old(w).files.contains_key(%s)' % (P1, P2)),
                ('C11 C18:present-entry-is-found', 'r.is_ok() && (old(w).files.contains_key(%s) || old(w).files.contains_key(%s)) ==> r.unwrap().is_some()' % (P1, P2)),
                ('C16:success-means-the-name-is-a-valid-key', 'r.is_ok() ==> valid_key(str_bytes(key.name))'),
                ('C01:a-hit-holds-bytes-some-writer-supplied-for-exactly-this-key',
                 'r.is_ok() && r.unwrap().is_some() && self.configured_cfg(old(w).cfg()) ==> final(w).inodes.contains_key(r.unwrap().unwrap().ino()) '
                 '&& final(w).supplied.contains((str_bytes(key.name), final(w).inodes[r.unwrap().unwrap().ino()].content))'),
            ]
        else:
            ens += [
                ('C06 C20:at-most-two-calls', 'final(w).steps <= old(w).steps + 2 * (2) && final(w).opens == old(w).opens'),
                ('C12 C11 C09:touch-marks-the-primary-copy-else-the-secondary',
                 'r == Ok::<bool, Error>(true) ==> (old(w).files.contains_key(%s) && final(w).accessed(%s)) || (!old(w).files.contains_key(%s) && old(w).files.contains_key(%s) && final(w).accessed(%s))'
                 % (P1, P1, P1, P2, P2)),
                ('C05 C11 C18:absence-is-reported-as-false', 'r == Ok::<bool, Error>(false) ==> !old(w).files.contains_key(%s) && !old(w).files.contains_key(%s)' % (P1, P2)),
            ]
        g.contract(requires=[('', 'old(w).inv() && self.wf()')], ensures=ens)
        g.body_start('broadcast use group_sharded;\n        proof { lemma_shard_ids(key.hash, key.secondary_hash, self.spec_n()); '
                     'if self.configured_cfg(old(w).cfg()) { lemma_shard_configured(*self, *old(w), %s as usize); lemma_shard_configured(*self, *old(w), %s as usize); } }' % (S1, S2))
        g.insert_after_stmt('let shard = self . shard (', '\n        proof { lemma_child(self.spec_root(), fmt_shard(h1)); lemma_child(self.spec_root(), fmt_shard(h2)); '
                       'assert(shard.spec_base() == shard_dir_of(self.spec_root(), h1)); }')

    # ---- maintenance helpers ------------------------------------------------------------------
    ue = im.sub(['fn update_estimate'])
    ue.attr('#[verifier::external_body]')
    u.trusted_notes.append('sharded::Cache::update_estimate is external_body (AtomicU8::fetch_update with a closure is outside Verus): it only touches '
                           'the in-memory load estimates, whose values every other contract treats as arbitrary; its panic-freedom is not verified')

    fm = u.under_contract(im.sub(['fn force_maintain_shard']), ['C07', 'C17', 'C02', 'C05', 'C18', 'C15', 'C16', 'C06'])
    fm.air = 'sharded::Cache::force_maintain_shard'
    fm.add_param(W)
    fm.add_arg('shard . maintain', TW)
    MAINT_ENS = [
        INV, ('', 'final(w).kept(*old(w))'),
        ('C17 C07 C15 C16:maintenance-is-confined-to-the-shard-directories-of-this-cache', 'sharded_maint_frame(*old(w), *final(w), self.spec_root(), self.spec_n())'),
        ('C05 C18 C06:error-is-a-real-fault', 'r.is_err() ==> final(w).hard_faults > old(w).hard_faults'),
        ('C06:linear-in-the-number-of-directory-entries', 'final(w).steps <= old(w).steps + 2 * (4 + 3 * (final(w).listed - old(w).listed)) && final(w).opens <= old(w).opens + 2'),
    ]
    fm.contract(requires=[('', 'old(w).inv() && self.rw(*old(w)) && shard.at(self.spec_root()) && shard.id < self.spec_n()')], ensures=MAINT_ENS)
    fm.body_start('broadcast use group_sharded;\n        proof { lemma_shard_rw(*self, *old(w), shard.id); lemma_maint_from_cleanup(*old(w), self.spec_root(), self.spec_n(), shard.id); }')

    mr = u.under_contract(im.sub(['fn maintain_random_other_shard']), ['C07', 'C17', 'C02', 'C05', 'C18', 'C15', 'C16', 'C12'])
    mr.air = 'sharded::Cache::maintain_random_other_shard'
    mr.add_param(W)
    mr.add_arg('self . force_maintain_shard', TW)
    mr.contract(requires=[('', 'old(w).inv() && self.rw(*old(w)) && base.at(self.spec_root()) && base.id < self.spec_n()')], ensures=MAINT_ENS)
    mr.body_start('broadcast use group_sharded;\n        proof { lemma_child(self.spec_root(), fmt_shard(base.id)); }')

    td = u.under_contract(im.sub(['fn temp_dir']), ['C02', 'C16', 'C17', 'C12', 'C18', 'C15'])
    td.air = 'sharded::Cache::temp_dir'
    td.add_param(W)
    td.add_arg('self . trigger . event', TW)
    td.add_arg('shard . cleanup_temp_directory', TW)
    td.add_arg('shard . ensure_temp_dir', TW)
    td.contract(
        requires=[('', 'old(w).inv() && self.rw(*old(w))')],
        ensures=[INV, ('', 'final(w).kept_nc(*old(w))'),
                 ('C02 C16 C12:temp-dir-is-the-kismet-temp-subdirectory-of-a-shard-of-this-cache',
                  'r.is_ok() ==> exists|i: usize| i < self.spec_n() && cowv(r.unwrap()) == #[trigger] child(shard_dir_of(self.spec_root(), i), temp_name()) && final(w).dirs.contains(cowv(r.unwrap()))'),
                 ('C17 C15 C16:only-stale-temporary-files-go-and-only-directories-of-this-cache-are-created', 'sharded_temp_frame(*old(w), *final(w), self.spec_root(), self.spec_n())'),
                 ('C18:error-is-a-real-fault', 'r.is_err() ==> final(w).hard_faults > old(w).hard_faults'),
                 ('C02 C13:asking-for-a-temp-dir-changes-no-lookup',
                  'forall|k: Key| #[trigger] sharded_lookup(final(w).files, self.spec_root(), self.spec_n(), k) == sharded_lookup(old(w).files, self.spec_root(), self.spec_n(), k)'),
                 ('C02 C13 C01:files-inside-the-temp-dir-are-invisible-to-lookups',
                  'r.is_ok() ==> forall|links: Map<PathV, InodeId>, nm: Seq<u8>, i: InodeId, k: Key| #[trigger] sharded_lookup(links.insert(child(cowv(r.unwrap()), nm), i), self.spec_root(), self.spec_n(), k) '
                  '== sharded_lookup(links, self.spec_root(), self.spec_n(), k)'),
                 ('C02 C16 C15:the-temp-dir-is-a-kismet-temp-directory-outside-every-read-only-root',
                  'r.is_ok() ==> final(w).is_temp_dir(cowv(r.unwrap())) && !final(w).under_ro(cowv(r.unwrap())) && forall|nm: Seq<u8>| !final(w).under_ro(#[trigger] child(cowv(r.unwrap()), nm))'),
                 ])
    td.body_start('broadcast use group_sharded;')
    td.insert_after_stmt('let shard = self . shard (',
                    '\n        proof { if key.is_some() { lemma_shard_ids(key.unwrap().hash, key.unwrap().secondary_hash, self.spec_n()); } '
                    'lemma_shard_rw(*self, *old(w), shard_id); lemma_child(shard_dir_of(self.spec_root(), shard_id), temp_name()); '
                    '}')
    td.insert_before('shard . cleanup_temp_directory', 'proof { lemma_temp_frames(*old(w), *w, self.spec_root(), self.spec_n(), shard_id); }\n            ')
    td.insert_before('Ok ( Cow :: from ( shard . ensure_temp_dir', 'proof { if w.same_fs(*old(w)) { lemma_temp_frames(*old(w), *w, self.spec_root(), self.spec_n(), shard_id); } '
                     'assert(sharded_temp_frame(*old(w), *w, self.spec_root(), self.spec_n())); lemma_temp_frames(*old(w), *old(w), self.spec_root(), self.spec_n(), shard_id); '
                     'lemma_sharded_temp_blind(self.spec_root(), self.spec_n(), shard_id); '
                     'assert forall|fin: World, k: Key| sharded_temp_frame(*old(w), fin, self.spec_root(), self.spec_n()) implies '
                     '#[trigger] sharded_lookup(fin.files, self.spec_root(), self.spec_n(), k) == sharded_lookup(old(w).files, self.spec_root(), self.spec_n(), k) by { '
                     'lemma_sharded_lookup_temp_frame(*old(w), fin, self.spec_root(), self.spec_n(), k); } }\n        ')

    # ---- writes ----------------------------------------------------------------------------------
    for opname, nsteps in (('set', 12), ('put', 14)):
        f = u.under_contract(im.sub(['fn ' + opname]), ['C11', 'C12', 'C16', 'C17', 'C15', 'C18', 'C05', 'C01', 'C02', 'C03', 'C10', 'C06', 'C20'])
        f.air = 'sharded::Cache::' + opname
        f.add_param(W)
        f.thread(['shard . file_exists'])
        f.add_arg('shard . ' + opname, TW)
        f.add_arg('self . maintain_random_other_shard', TW)
        f.add_arg('self . force_maintain_shard', TW)
        f.contract(
            requires=[('', 'old(w).inv() && self.rw(*old(w))'),
                      ('C01 C03:caller-hands-in-a-private-finished-file-holding-the-value-for-this-key',
                       '%s ==> value_ready(*old(w), pv(value), shard_dir_of(self.spec_root(), %s as usize), str_bytes(key.name)) '
                       '&& value_ready(*old(w), pv(value), shard_dir_of(self.spec_root(), %s as usize), str_bytes(key.name))' % (NAMEOK, S1, S2))],
            ensures=[
                INV, ('', 'final(w).kept_nc(*old(w))'),
                ('C16:invalid-names-fail-with-invalid-input-and-modify-nothing',
                 '%s ==> r.is_err() && err_kind(err_of(r)) == ErrorKind::InvalidInput && final(w).same_fs(*old(w)) && final(w).counter == old(w).counter '
                 '&& final(w).published == old(w).published' % BADNAME),
                ('C12 C16:an-entry-is-only-ever-stored-under-one-of-its-two-candidate-shards',
                 'forall|p: PathV| #[trigger] final(w).files.contains_key(p) && !old(w).files.contains_key(p) ==> p == %s || p == %s' % (P1, P2)),
                ('C18 C05 C06:without-a-real-fault-a-failed-write-published-nothing', 'r.is_err() && final(w).hard_faults == old(w).hard_faults ==> final(w).published == old(w).published'),
                ('C01 C03 C19:a-write-never-changes-the-bytes-of-any-file',
                 'bytes_kept(*old(w), *final(w))'),
                ('C13 C11 C18:success-means-a-publication-happened' + ('' if opname == 'set' else '-unless-the-key-was-already-bound'),
                 'r.is_ok() ==> final(w).published > old(w).published' + ('' if opname == 'set' else ' || old(w).files.contains_key(%s) || old(w).files.contains_key(%s)' % (P1, P2))),
                ] + ([] if opname == 'set' else [('C11 C04:put-never-overwrites-an-existing-entry',
                                                 'r.is_ok() && final(w).hard_faults == old(w).hard_faults && final(w).listed == old(w).listed && (old(w).files.contains_key(%s) || old(w).files.contains_key(%s)) ==> final(w).published == old(w).published' % (P1, P2))]) + [
                ('C11 C09:a-sharded-cache-never-ends-up-with-two-copies-of-one-key',
                 'final(w).hard_faults == old(w).hard_faults && !(old(w).files.contains_key(%s) && old(w).files.contains_key(%s)) && !old(w).dirs.contains(%s) && !old(w).dirs.contains(%s) '
                 '==> !(final(w).files.contains_key(%s) && final(w).files.contains_key(%s))' % (P1, P2, P1, P2, P1, P2)),
                ('C11 C18:success-consumes-the-source', 'r.is_ok() ==> old(w).files.contains_key(pv(value)) && !final(w).files.contains_key(pv(value))'),
                ('C17 C15 C16:everything-that-changes-is-inside-the-shard-directories-of-this-cache',
                 'sharded_frame(*old(w), *final(w), self.spec_root(), self.spec_n(), str_bytes(key.name), pv(value))'),
                ('C18 C05 C06:error-is-explained',
                 'r.is_err() ==> %s || final(w).hard_faults > old(w).hard_faults || !final(w).files.contains_key(pv(value))' % REJ),
                ('C06 C20:filesystem-calls-are-a-constant-plus-three-per-directory-item-read-by-maintenance',
                 'final(w).steps <= old(w).steps + 2 * (%d + 3 * (final(w).listed - old(w).listed)) && final(w).opens <= old(w).opens + 4' % (nsteps + 8)),
            ])
        ROOT = 'self.spec_root()'
        NM = 'str_bytes(key.name)'
        f.body_start('broadcast use group_sharded;\n        proof { lemma_shard_ids(key.hash, key.secondary_hash, self.spec_n()); '
                     'if first_byte_ok(%s) && !%s.contains(0x2fu8) { lemma_valid_key(%s); } }' % (NM, NM, NM))
        f.insert_after_stmt('let mut shard = self . shard (',
                       '\n        proof { lemma_child(%s, fmt_shard(h1)); lemma_child(%s, fmt_shard(h2)); lemma_entries_differ(%s, h1, h2, %s); }' % (ROOT, ROOT, ROOT, NM))
        f.insert_before('let update = shard .',
                        'let ghost w0 = *w;\n        let ghost tgt = shard.id;\n        let ghost existed2 = (tgt == h2);\n'
                        '        proof {\n'
                        '            if valid_key(%s) {\n'
                        '                assert(shard.at(%s));\n'
                        '                lemma_shard_rw(*self, w0, tgt);\n'
                        '                lemma_child(shard_dir_of(%s, tgt), %s);\n'
                        '            }\n'
                        '            // whatever the directory-level write does (error exits included) is confined as the postconditions say\n'
                        '            assert forall|fin: World| #[trigger] write_frame(w0, fin, shard_dir_of(%s, tgt), %s, pv(value)) && valid_key(%s) implies\n'
                        '                sharded_frame(*old(w), fin, %s, self.spec_n(), %s, pv(value))\n'
                        '                && (forall|p: PathV| #[trigger] fin.files.contains_key(p) && !old(w).files.contains_key(p) ==> p == child(shard_dir_of(%s, tgt), %s)) by {\n'
                        '                lemma_sharded_from_write(w0, fin, %s, self.spec_n(), tgt, %s, pv(value));\n'
                        '            }\n'
                        '        }\n        ' % (NM, ROOT, ROOT, NM, ROOT, NM, NM, ROOT, NM, ROOT, NM, ROOT, NM))
        f.insert_after_stmt('let update = shard . %s (' % opname,
                       '\n        let ghost w1 = *w;\n'
                       '        proof {\n'
                       '            assert forall|fin: World| #[trigger] sharded_maint_frame(w1, fin, %s, self.spec_n()) && fin.kept(w1) implies\n'
                       '                sharded_frame(*old(w), fin, %s, self.spec_n(), %s, pv(value))\n'
                       '                && (forall|p: PathV| #[trigger] fin.files.contains_key(p) ==> w1.files.contains_key(p)) by {\n'
                       '                lemma_sharded_then_maint(*old(w), w1, fin, %s, self.spec_n(), %s, pv(value));\n'
                       '            }\n'
                       '        }' % (ROOT, ROOT, NM, ROOT, NM))

    KEEP = {'new', 'random_shard_id', 'other_shard_id', 'shard_ids', 'sort_by_load', 'shard', 'get', 'touch', 'update_estimate',
            'force_maintain_shard', 'maintain_random_other_shard', 'temp_dir', 'set', 'put'}
    dropped = im.drop_members_except(KEEP)
    if dropped:
        u.dropped.append('sharded.rs: members of impl Cache not (yet) under contract: ' + ', '.join(dropped))
    u.text('}\n')
