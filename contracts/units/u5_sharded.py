"""U5: the sharded front-end (sharded.rs) on top of U4 (the whole of U4 is part of this unit, so that
callers are checked against the contracts of the very functions verified next to them)."""
import importlib.util
import os

SERVES = ['C01', 'C02', 'C03', 'C05', 'C06', 'C07', 'C09', 'C10', 'C11', 'C12', 'C15', 'C16', 'C17', 'C18', 'C19', 'C20']
VERUS_FLAGS = ['--no-trait-conflicts']
W = 'Tracked(w): Tracked<&mut World>'
TW = 'Tracked(w)'


def _unit(name):
    p = os.path.join(os.path.dirname(os.path.abspath(__file__)), name + '.py')
    spec = importlib.util.spec_from_file_location(name, p)
    m = importlib.util.module_from_spec(spec)
    spec.loader.exec_module(m)
    return m


def build(u):
    u4 = _unit('u4_rawfs')
    u3 = _unit('u3_hash')
    u4.build(u)
    u.features = ['allocator_api']
    u.prelude('sharded_env.rs')
    u3.hash_prelude_specs_only(u)
    u3.weave_hash(u, props=['C12'])
    k = u.item('src/lib.rs', ['struct Key'])
    k.drop_attrs()
    u.text("impl<'a> Clone for Key<'a> { #[verifier::external_body] fn clone(&self) -> (r: Self) ensures r == *self { *self } }\nimpl<'a> Copy for Key<'a> {}\n")
    u.dropped.append('lib.rs: #[derive(Clone, Copy, Debug)] on Key (Clone/Copy re-declared as a bitwise copy)')
    weave_sharded(u, u4, u3)
    return u


def weave_sharded(u, u4, u3):
    from weave import Repl
    u.text('pub mod sharded {\n' + u4.MOD_HEAD + 'use crate::cache_dir::CacheDir;\nuse crate::cache_dir::*;\nuse crate::trigger::PeriodicTrigger;\n'
           'use crate::std::fs::File;\nuse crate::multiplicative_hash::MultiplicativeHash;\nuse crate::Key;\n'
           'use crate::KISMET_TEMPORARY_SUBDIRECTORY as TEMP_SUBDIR;\nuse ::std::sync::atomic::Ordering::Relaxed;\nuse crate::rand;\n')
    INV = ('C02 C18:valid-on-every-exit', 'final(w).inv()')
    u.item('src/sharded.rs', ['const MAINTENANCE_SCALE'])
    u3.weave_mixers(u)
    cs = u.item('src/sharded.rs', ['struct Cache'])
    cs.drop_attrs()
    u.dropped.append('sharded.rs: #[derive(Clone, Debug)] on Cache')

    # format_id: a format! call (outside Verus): assumed contract, observed natively in the thorough tier
    fi = u.item('src/sharded.rs', ['fn format_id'])
    fi.drop_attrs()
    fi.attr('#[verifier::external_body]')
    fi.contract(ensures=[('', 'string_bytes_u(&r) == fmt_shard(shard)')])
    u.trusted_notes.append('sharded::format_id is external_body (format!): assumed to return fmt_shard(i), a single component starting with a dot, '
                           'different from ".kismet_temp" and injective in i (axiom_fmt_shard); the real names are observed natively (bounded) in the thorough tier of C12')

    st = u.item('src/sharded.rs', ['struct Shard'])
    st.insert_before('struct Shard', 'pub ')
    for fld in ('id :', 'shard_dir :', 'trigger :', 'capacity :'):
        st.insert_before(fld, 'pub ')

    u.text('''
/// The directory of shard `i` of the cache rooted at `base`.
pub open spec fn shard_dir_of(base: PathV, i: usize) -> PathV {
    child(base, fmt_shard(i))
}

pub open spec fn entry_in(base: PathV, i: int, name: Seq<u8>) -> PathV {
    child(shard_dir_of(base, i as usize), name)
}

impl Cache {
    pub closed spec fn spec_root(&self) -> PathV { pbv(self.base_dir) }
    pub closed spec fn spec_n(&self) -> usize { self.num_shards }
    pub closed spec fn spec_loads(&self) -> int { self.load_estimates@.len() as int }
    pub closed spec fn spec_shard_cap(&self) -> usize { self.shard_capacity }
    pub closed spec fn spec_trig(&self) -> PeriodicTrigger { self.trigger }

    /// Handle invariant established by `new`.
    pub open spec fn wf(&self) -> bool {
        self.spec_n() >= 2 && self.spec_loads() == self.spec_n()
    }

    /// Every shard directory of this cache is a configured read-write cache directory.
    pub open spec fn rw(&self, w: World) -> bool {
        &&& self.wf()
        &&& forall|i: usize| i < self.spec_n() ==> #[trigger] w.cache_dirs.contains(shard_dir_of(self.spec_root(), i))
        &&& forall|i: usize, n: Seq<u8>| i < self.spec_n() ==> !w.under_ro(#[trigger] child(shard_dir_of(self.spec_root(), i), n))
        &&& forall|i: usize, n: Seq<u8>| i < self.spec_n() ==> !w.under_ro(#[trigger] child(child(shard_dir_of(self.spec_root(), i), temp_name()), n))
        &&& forall|i: usize| i < self.spec_n() ==> !w.under_ro(#[trigger] shard_dir_of(self.spec_root(), i)) && !w.under_ro(child(shard_dir_of(self.spec_root(), i), temp_name()))
    }
}

impl Shard {
    pub open spec fn at(&self, root: PathV) -> bool {
        pbv(self.shard_dir) == shard_dir_of(root, self.id)
    }
}
''')

    ish = u.item('src/sharded.rs', ['impl Shard'])
    rs = u.under_contract(ish.sub(['fn replace_shard']), ['C12', 'C16'])
    rs.air = 'sharded::Shard::replace_shard'
    rs.contract(
        requires=[('', 'pbv(self.shard_dir).len() > 0')],
        ensures=[('C12 C16:shard-directory-is-the-formatted-id-below-the-same-root',
                  'r.id == id && pbv(r.shard_dir) == shard_dir_of(parent(pbv(self.shard_dir)), id) && r.trigger == self.trigger && r.capacity == self.capacity')])
    rs.body_start('broadcast use group_asref;\n        broadcast use group_sharded;')
    fe = u.under_contract(ish.sub(['fn file_exists']), ['C11', 'C16', 'C20', 'C06', 'C15', 'C12'])
    fe.air = 'sharded::Shard::file_exists'
    fe.add_param(W)
    fe.add_arg('std :: fs :: metadata', TW)
    fe.contract(
        requires=[('', 'old(w).inv()')],
        ensures=[INV, ('', 'final(w).kept(*old(w)) && final(w).listed == old(w).listed'),
                 ('C15 C16 C20:existence-probe-is-one-stat-and-changes-nothing',
                  'final(w).same_fs(*old(w)) && final(w).steps == old(w).steps + 1 && final(w).opens == old(w).opens && final(w).published == old(w).published && final(w).now == old(w).now'),
                 ('C16:probe-leaves-the-shard-path-alone-for-valid-names', 'valid_key(str_bytes(name)) ==> pbv(final(self).shard_dir) == pbv(old(self).shard_dir)'),
                 ('', 'final(self).id == old(self).id && final(self).trigger == old(self).trigger && final(self).capacity == old(self).capacity'),
                 ('C11 C12:probe-reports-presence-truthfully',
                  'valid_key(str_bytes(name)) && final(w).hard_faults == old(w).hard_faults ==> r == (old(w).files.contains_key(child(pbv(old(self).shard_dir), str_bytes(name))) '
                  '|| old(w).dirs.contains(child(pbv(old(self).shard_dir), str_bytes(name))))')])
    fe.body_start('broadcast use group_asref;')

    ics = u.item('src/sharded.rs', ['impl CacheDir for Shard'])
    ics.drop_inner_attrs('# [ inline ]')
    for name, ret, body in (('temp_dir', 'PathV', 'child(pbv(self.shard_dir), temp_name())'), ('base_dir', 'PathV', 'pbv(self.shard_dir)'),
                            ('trigger', 'PeriodicTrigger', 'self.trigger'), ('capacity', 'usize', 'self.capacity')):
        m = ics.sub(['fn ' + name])
        m.insert_before_tok(m.fn_kw(), 'open spec fn spec_%s(&self) -> %s { %s }\n\n    ' % (name.replace('_dir', ''), ret, body))
    ics.sub(['fn temp_dir']).body_start('broadcast use group_asref;\n        proof { lemma_temp_subdir(); }')

    im = u.item('src/sharded.rs', ['impl Cache'])
    nw = u.under_contract(im.sub(['fn new']), ['C12', 'C10', 'C16'])
    nw.air = 'sharded::Cache::new'
    nw.contract(ensures=[
        ('C12:fewer-than-two-shards-are-treated-as-two', 'r.spec_n() == (if num_shards < 2 { 2usize } else { num_shards }) && r.wf()'),
        ('C12 C16:root-is-the-configured-directory', 'r.spec_root() == pbv(base_dir)'),
    ])
    nw.insert_before('let shard_capacity =', 'proof { assert(total_capacity as int / num_shards as int <= total_capacity as int / 2) by (nonlinear_arith) requires num_shards >= 2, total_capacity >= 0; }\n        ')
    rnd = u.under_contract(im.sub(['fn random_shard_id']), ['C12', 'C07'])
    rnd.air = 'sharded::Cache::random_shard_id'
    rnd.contract(requires=[('', 'self.spec_n() > 0')], ensures=[('C12:random-shard-is-a-shard-of-this-cache', 'r < self.spec_n()')])
    osi = u.under_contract(im.sub(['fn other_shard_id']), ['C12'])
    osi.air = 'sharded::Cache::other_shard_id'
    osi.contract(requires=[('C12:other-in-range', 'other < self.num_shards')],
                 ensures=[('C12:collision-fixup', 'r as int == other_shard_spec(base as int, other as int, self.num_shards as int)')])
    sid = u.under_contract(im.sub(['fn shard_ids']), ['C12'])
    sid.air = 'sharded::Cache::shard_ids'
    sid.contract(requires=[('C12:at-least-two-shards', 'self.num_shards >= 2')],
                 ensures=[('C12:shard-ids-are-the-documented-function-of-the-hashes',
                           '(r.0 as int, r.1 as int) == shard_ids_spec(key.hash, key.secondary_hash, self.num_shards)'),
                          ('C12:two-distinct-shards-in-range', 'r.0 < self.num_shards && r.1 < self.num_shards && r.0 != r.1')])
    sid.body_start('proof { lemma_shard_ids(key.hash, key.secondary_hash, self.num_shards); }')

    # T6: tuple parameter pattern
    sbl = u.under_contract(im.sub(['fn sort_by_load']), ['C12', 'C11'])
    sbl.air = 'sharded::Cache::sort_by_load'
    sbl.replace('( h1 , h2 ) : ( usize , usize )', 'kv_p: (usize, usize)', 'T6-tuple-param')
    sbl.contract(requires=[('', 'self.wf() && kv_p.0 < self.spec_n() && kv_p.1 < self.spec_n()')],
                 ensures=[('C12 C11:load-estimates-merely-choose-between-the-two-candidates', 'r == kv_p || r == (kv_p.1, kv_p.0)')])
    sbl.body_start('let (h1, h2) = kv_p;')
    u.dropped.append('T6: `fn sort_by_load(&self, (h1, h2): (usize, usize))` becomes `kv_p: (usize, usize)` + `let (h1, h2) = kv_p;`')

    sh = u.under_contract(im.sub(['fn shard']), ['C12', 'C16'])
    sh.air = 'sharded::Cache::shard'
    sh.contract(ensures=[('C12 C16:shard-directory-is-the-formatted-id-below-the-root',
                          'r.id == shard_id && r.at(self.spec_root()) && r.trigger == self.spec_trig() && r.capacity == self.spec_shard_cap()')])
    sh.body_start('broadcast use group_asref;\n        broadcast use group_sharded;')

    S1 = 'shard_ids_spec(key.hash, key.secondary_hash, self.spec_n()).0'
    S2 = 'shard_ids_spec(key.hash, key.secondary_hash, self.spec_n()).1'
    P1 = 'entry_in(self.spec_root(), %s, str_bytes(key.name))' % S1
    P2 = 'entry_in(self.spec_root(), %s, str_bytes(key.name))' % S2
    NAMEOK = 'valid_key(str_bytes(key.name))'
    BADNAME = '(!first_byte_ok(str_bytes(key.name)) || str_bytes(key.name).contains(0x2fu8))'

    # ---- lookups -----------------------------------------------------------------------------
    for opname in ('get', 'touch'):
        g = u.under_contract(im.sub(['fn ' + opname]), ['C12', 'C11', 'C05', 'C06', 'C09', 'C13', 'C15', 'C16', 'C18', 'C19', 'C20', 'C01'])
        g.air = 'sharded::Cache::' + opname
        g.add_param(W)
        g.add_arg('shard . ' + opname, TW)
        g.add_arg('shard . replace_shard ( h2 ) . ' + opname, TW)
        ens = [
            INV, ('', 'final(w).kept(*old(w)) && final(w).listed == old(w).listed && final(w).published == old(w).published'),
            ('C16:invalid-names-fail-with-invalid-input-and-touch-nothing',
             '!first_byte_ok(str_bytes(key.name)) ==> r.is_err() && err_kind(err_of(r)) == ErrorKind::InvalidInput && *final(w) == *old(w)'),
            ('C15 C09:lookup-changes-nothing-but-the-access-time-of-an-entry-under-this-key',
             'final(w).files == old(w).files && final(w).dirs == old(w).dirs && forall|i: InodeId| old(w).inodes.contains_key(i) ==> '
             '#[trigger] final(w).inodes[i] == (Inode { atime: final(w).inodes[i].atime, ..old(w).inodes[i] }) '
             '&& (final(w).inodes[i].atime != old(w).inodes[i].atime ==> (old(w).files.contains_key(%s) && i == old(w).files[%s]) '
             '|| (old(w).files.contains_key(%s) && i == old(w).files[%s]))' % (P1, P1, P2, P2)),
            ('C18 C05:error-is-an-invalid-name-or-a-real-fault', 'r.is_err() ==> %s || final(w).hard_faults > old(w).hard_faults' % BADNAME),
        ]
        if opname == 'get':
            ens += [
                ('C06 C20:at-most-two-opens-six-calls', 'final(w).steps <= old(w).steps + 6 && final(w).opens <= old(w).opens + 2'),
                ('C12 C11 C01 C19:primary-candidate-is-probed-first-then-the-secondary',
                 'r.is_ok() && r.unwrap().is_some() ==> !r.unwrap().unwrap().can_write() && ((old(w).files.contains_key(%s) && r.unwrap().unwrap().ino() == old(w).files[%s]) '
                 '|| (!old(w).files.contains_key(%s) && old(w).files.contains_key(%s) && r.unwrap().unwrap().ino() == old(w).files[%s]))' % (P1, P1, P1, P2, P2)),
                ('C12 C11 C05:miss-means-absent-from-both-candidates',
                 'r.is_ok() && r.unwrap().is_none() ==> !old(w).files.contains_key(%s) && !old(w).files.contains_key(%s)' % (P1, P2)),
                ('C11:present-entry-is-found', 'r.is_ok() && (old(w).files.contains_key(%s) || old(w).files.contains_key(%s)) ==> r.unwrap().is_some()' % (P1, P2)),
            ]
        else:
            ens += [
                ('C06 C20:at-most-two-calls', 'final(w).steps <= old(w).steps + 2 && final(w).opens == old(w).opens'),
                ('C12 C11 C09:touch-marks-the-primary-copy-else-the-secondary',
                 'r == Ok::<bool, Error>(true) ==> (old(w).files.contains_key(%s) && final(w).accessed(%s)) || (!old(w).files.contains_key(%s) && old(w).files.contains_key(%s) && final(w).accessed(%s))'
                 % (P1, P1, P1, P2, P2)),
                ('C05 C11:absence-is-reported-as-false', 'r == Ok::<bool, Error>(false) ==> !old(w).files.contains_key(%s) && !old(w).files.contains_key(%s)' % (P1, P2)),
            ]
        g.contract(requires=[('', 'old(w).inv() && self.wf()')], ensures=ens)
        g.body_start('broadcast use group_sharded;\n        proof { lemma_shard_ids(key.hash, key.secondary_hash, self.spec_n()); }')
        g.insert_after('let shard = self . shard ( h1 ) ;', '\n        proof { lemma_child(self.spec_root(), fmt_shard(h1)); lemma_child(self.spec_root(), fmt_shard(h2)); '
                       'assert(shard.spec_base() == shard_dir_of(self.spec_root(), h1)); }')

    KEEP = {'new', 'random_shard_id', 'other_shard_id', 'shard_ids', 'sort_by_load', 'shard', 'get', 'touch'}
    dropped = im.drop_members_except(KEEP)
    if dropped:
        u.dropped.append('sharded.rs: members of impl Cache not (yet) under contract: ' + ', '.join(dropped))
    u.text('}\n')
