// =============================================================================================
// Stand-ins for everything the crate does not own (T2): modules named `std`, `filetime`, `libc`
// shadow the real ones inside the generated modules, so the extracted code keeps its own paths
// (`std::fs::rename(..)`) and only gains the ghost argument `Tracked(w)` (T1).
// Every function here is `external_body`: its contract is an ASSUMPTION about POSIX / std /
// filetime (listed in evidence), and its `requires` is the PROTOCOL GUARANTEE the crate must
// establish before making that call.
// =============================================================================================
pub use ::std::path::Path;
pub use ::std::path::PathBuf;
pub use ::std::borrow::Cow;

#[verifier::external_type_specification]
#[verifier::external_body]
pub struct ExPath(::std::path::Path);

#[verifier::external_type_specification]
#[verifier::external_body]
pub struct ExPathBuf(::std::path::PathBuf);

#[verifier::external_type_specification]
#[verifier::external_body]
pub struct ExIoError(::std::io::Error);

#[verifier::external_type_specification]
pub struct ExErrorKind(::std::io::ErrorKind);

#[verifier::external_type_specification]
#[verifier::external_body]
pub struct ExOsString(::std::ffi::OsString);

#[verifier::external_type_specification]
#[verifier::external_body]
pub struct ExOsStr(::std::ffi::OsStr);

pub uninterp spec fn osstr_bytes(s: &::std::ffi::OsStr) -> Seq<u8>;

pub assume_specification[ <::std::ffi::OsString as ::std::ops::Deref>::deref ](s: &::std::ffi::OsString) -> (r: &::std::ffi::OsStr)
    ensures
        osstr_bytes(r) == os_bytes(*s),
;

pub assume_specification[ ::std::ffi::OsStr::as_encoded_bytes ](s: &::std::ffi::OsStr) -> (r: &[u8])
    ensures
        r@ == osstr_bytes(s),
;

// ---- views -----------------------------------------------------------------------------------
/// The resolved component list a path-like value denotes (uninterpreted; one generic function so
/// that generic std signatures such as `Cow<B>::deref` can relate their argument and result).
pub uninterp spec fn gview<T: ?Sized>(t: &T) -> PathV;

pub open spec fn pv(p: &Path) -> PathV {
    gview::<Path>(p)
}

pub open spec fn pbv(p: PathBuf) -> PathV {
    gview::<PathBuf>(&p)
}

pub open spec fn cowv(p: Cow<'_, Path>) -> PathV {
    gview::<Cow<'_, Path>>(&p)
}

pub uninterp spec fn os_bytes(s: ::std::ffi::OsString) -> Seq<u8>;
pub uninterp spec fn err_kind(e: ::std::io::Error) -> ::std::io::ErrorKind;
pub uninterp spec fn err_errno(e: ::std::io::Error) -> Option<i32>;

pub open spec fn estale() -> i32 { 116 }

/// What `benign_error::is_absent_file_error` is meant to recognise: ENOENT-like or ESTALE.
pub open spec fn absent_err(e: ::std::io::Error) -> bool {
    err_kind(e) == ::std::io::ErrorKind::NotFound || err_errno(e) == Some(estale())
}

/// The error carried by a failed result (no `Debug` bound, unlike `unwrap_err`).
pub open spec fn err_of<T>(r: ::std::io::Result<T>) -> ::std::io::Error {
    match r {
        Err(e) => e,
        Ok(_) => arbitrary(),
    }
}

pub open spec fn exists_err(e: ::std::io::Error) -> bool {
    err_kind(e) == ::std::io::ErrorKind::AlreadyExists
}

/// Bytes of a `str` (its UTF-8 encoding).
pub open spec fn str_bytes(s: &str) -> Seq<u8> {
    vstd::string::StringSliceAdditionalSpecFns::spec_bytes(s)
}

// ---- std::io::Error ----------------------------------------------------------------------------
pub assume_specification[ ::std::io::Error::kind ](e: &::std::io::Error) -> (k: ::std::io::ErrorKind)
    ensures
        k == err_kind(*e),
;

pub assume_specification[ ::std::io::Error::raw_os_error ](e: &::std::io::Error) -> (k: Option<i32>)
    ensures
        k == err_errno(*e),
;

pub assume_specification[ <::std::io::ErrorKind as PartialEq>::eq ](a: &::std::io::ErrorKind, b: &::std::io::ErrorKind) -> (r: bool)
    ensures
        r == (*a == *b),
;

pub assume_specification[ i64::saturating_sub ](a: i64, b: i64) -> (r: i64)
    ensures
        r as int == (if (a as int) - (b as int) > (i64::MAX as int) { i64::MAX as int } else if (a as int) - (b as int) < (i64::MIN as int) { i64::MIN as int } else { (a as int) - (b as int) }),
;

/// Stand-in for `std::io::Error::new(kind, msg)` (T2: its generic bound mentions `dyn Error + Send + Sync`,
/// which Verus cannot express): an error of that kind that carries no OS error number.
#[verifier::external_body]
pub fn io_error_new(kind: ::std::io::ErrorKind, msg: &str) -> (r: ::std::io::Error)
    ensures
        err_kind(r) == kind,
        err_errno(r).is_none(),
{
    ::std::io::Error::new(kind, msg)
}

pub assume_specification<T: PartialEq>[ <[T]>::contains ](s: &[T], x: &T) -> (r: bool)
    ensures
        r == s@.contains(*x),
;

// ---- Path / PathBuf / Cow ----------------------------------------------------------------------
pub assume_specification[ <PathBuf as ::std::ops::Deref>::deref ](p: &PathBuf) -> (r: &Path)
    ensures
        pv(r) == pbv(*p),
;

pub assume_specification<'a, 'b, B: ?Sized + ::std::borrow::ToOwned>[ <Cow<'a, B> as ::std::ops::Deref>::deref ](p: &'b Cow<'a, B>) -> (r: &'b B)
    ensures
        gview::<B>(r) == gview::<Cow<'a, B>>(p),
;

pub assume_specification<'a>[ <Cow<'a, Path> as ::std::convert::From<&'a PathBuf>>::from ](p: &'a PathBuf) -> (r: Cow<'a, Path>)
    ensures
        cowv(r) == pbv(*p),
;

pub assume_specification<'a>[ <Cow<'a, Path> as ::std::convert::From<&'a Path>>::from ](p: &'a Path) -> (r: Cow<'a, Path>)
    ensures
        cowv(r) == pv(p),
;

pub assume_specification<'a>[ <Cow<'a, Path> as ::std::convert::From<PathBuf>>::from ](p: PathBuf) -> (r: Cow<'a, Path>)
    ensures
        cowv(r) == pbv(p),
;

pub assume_specification<'a, B: ?Sized + ::std::borrow::ToOwned>[ Cow::<'a, B>::into_owned ](p: Cow<'a, B>) -> (r: <B as ::std::borrow::ToOwned>::Owned)
    ensures
        gview::<<B as ::std::borrow::ToOwned>::Owned>(&r) == gview::<Cow<'a, B>>(&p),
;

pub assume_specification[ <Path as ::std::borrow::ToOwned>::to_owned ](p: &Path) -> (r: PathBuf)
    ensures
        pbv(r) == pv(p),
;

pub assume_specification[ Path::to_path_buf ](p: &Path) -> (r: PathBuf)
    ensures
        pbv(r) == pv(p),
;

pub assume_specification[ <PathBuf as Clone>::clone ](p: &PathBuf) -> (r: PathBuf)
    ensures
        pbv(r) == pbv(*p),
;

pub assume_specification[ PathBuf::pop ](p: &mut PathBuf) -> (r: bool)
    ensures
        pbv(*old(p)).len() > 0 ==> r && pbv(*final(p)) == pbv(*old(p)).drop_last(),
;

pub assume_specification[ Path::parent ](p: &Path) -> (r: Option<&Path>)
    ensures
        pv(p).len() > 0 ==> r.is_some() && pv(r.unwrap()) == pv(p).drop_last(),
        pv(p).len() == 0 ==> r.is_none(),
;

/// `PathBuf::push(x)`: only a *single normal component* is known to land directly below the old
/// path; for anything else (absolute paths, embedded '/', "..", ...) nothing is known about the
/// result, so no confinement obligation can be proved for it.
pub uninterp spec fn asref_bytes<P>(p: P) -> Seq<u8>;

pub assume_specification<P: ::std::convert::AsRef<Path>>[ PathBuf::push ](b: &mut PathBuf, p: P)
    ensures
        single_component(asref_bytes(p)) ==> pbv(*final(b)) == pbv(*old(b)).push(asref_bytes(p)),
;

#[verifier::external_body]
pub broadcast proof fn axiom_asref_str(s: &str)
    ensures
        #[trigger] asref_bytes(s) == str_bytes(s),
{
}

#[verifier::external_body]
pub broadcast proof fn axiom_asref_osstring(s: ::std::ffi::OsString)
    ensures
        #[trigger] asref_bytes(s) == os_bytes(s),
{
}

pub broadcast group group_asref {
    axiom_asref_str,
    axiom_asref_osstring,
}

// ---- filetime ----------------------------------------------------------------------------------
pub mod filetime {
    use super::*;
    use vstd::std_specs::cmp::*;
    use core::cmp::Ordering;

    /// Same shape as the real `filetime::FileTime`: (seconds, nanoseconds), ordered lexicographically.
    #[derive(Clone, Copy)]
    pub struct FileTime {
        pub seconds: i64,
        pub nanos: u32,
    }

    impl FileTime {
        pub open spec fn ns(self) -> int {
            self.seconds as int * ns_per_sec() + self.nanos as int
        }

        pub open spec fn wf(self) -> bool {
            (self.nanos as int) < ns_per_sec()
        }

        /// The clock: monotone, not before the epoch.
        #[verifier::external_body]
        pub fn now(Tracked(w): Tracked<&mut World>) -> (r: FileTime)
            requires
                old(w).inv(),
            ensures
                final(w).inv(),
                r.wf(),
                r.seconds >= 0,
                r.ns() >= old(w).now,
                *final(w) == (World { now: r.ns(), ..*old(w) }),
        {
            unimplemented!()
        }

        pub fn from_unix_time(seconds: i64, nanos: u32) -> (r: FileTime)
            ensures
                r.seconds == seconds,
                r.nanos == nanos,
        {
            FileTime { seconds, nanos }
        }

        pub fn unix_seconds(&self) -> (r: i64)
            ensures
                r == self.seconds,
        {
            self.seconds
        }

        pub fn nanoseconds(&self) -> (r: u32)
            ensures
                r == self.nanos,
        {
            self.nanos
        }

        #[verifier::external_body]
        pub fn from_last_access_time(meta: &std::fs::Metadata) -> (r: FileTime)
            ensures
                r.wf(),
                r.ns() == meta.view().atime,
        {
            unimplemented!()
        }

        #[verifier::external_body]
        pub fn from_last_modification_time(meta: &std::fs::Metadata) -> (r: FileTime)
            ensures
                r.wf(),
                r.ns() == meta.view().mtime,
        {
            unimplemented!()
        }
    }

    impl PartialEqSpecImpl for FileTime {
        open spec fn obeys_eq_spec() -> bool {
            true
        }

        open spec fn eq_spec(&self, other: &FileTime) -> bool {
            self.seconds == other.seconds && self.nanos == other.nanos
        }
    }

    impl PartialEq for FileTime {
        fn eq(&self, other: &FileTime) -> (r: bool) {
            self.seconds == other.seconds && self.nanos == other.nanos
        }
    }

    impl Eq for FileTime {

    }

    pub open spec fn lex(a: FileTime, b: FileTime) -> Ordering {
        if a.seconds < b.seconds || (a.seconds == b.seconds && a.nanos < b.nanos) {
            Ordering::Less
        } else if a.seconds == b.seconds && a.nanos == b.nanos {
            Ordering::Equal
        } else {
            Ordering::Greater
        }
    }

    impl PartialOrdSpecImpl for FileTime {
        open spec fn obeys_partial_cmp_spec() -> bool {
            true
        }

        open spec fn partial_cmp_spec(&self, other: &FileTime) -> Option<Ordering> {
            Some(lex(*self, *other))
        }
    }

    impl PartialOrd for FileTime {
        fn partial_cmp(&self, other: &FileTime) -> (r: Option<Ordering>) {
            if self.seconds < other.seconds || (self.seconds == other.seconds && self.nanos < other.nanos) {
                Some(Ordering::Less)
            } else if self.seconds == other.seconds && self.nanos == other.nanos {
                Some(Ordering::Equal)
            } else {
                Some(Ordering::Greater)
            }
        }
    }

    impl OrdSpecImpl for FileTime {
        open spec fn obeys_cmp_spec() -> bool {
            true
        }

        open spec fn cmp_spec(&self, other: &FileTime) -> Ordering {
            lex(*self, *other)
        }
    }

    impl Ord for FileTime {
        fn cmp(&self, other: &FileTime) -> (r: Ordering) {
            if self.seconds < other.seconds || (self.seconds == other.seconds && self.nanos < other.nanos) {
                Ordering::Less
            } else if self.seconds == other.seconds && self.nanos == other.nanos {
                Ordering::Equal
            } else {
                Ordering::Greater
            }
        }
    }

    /// Lexicographic order on well-formed values is the order of the nanosecond count.
    pub proof fn lemma_lex_is_ns(a: FileTime, b: FileTime)
        requires
            a.wf(),
            b.wf(),
        ensures
            (lex(a, b) == Ordering::Less) == (a.ns() < b.ns()),
            (lex(a, b) == Ordering::Equal) == (a.ns() == b.ns()),
            (lex(a, b) == Ordering::Greater) == (a.ns() > b.ns()),
    {
        let n = ns_per_sec();
        assert(a.seconds < b.seconds ==> a.seconds as int * n + n <= b.seconds as int * n) by (nonlinear_arith)
            requires
                n == 1_000_000_000,
        ;
        assert(b.seconds < a.seconds ==> b.seconds as int * n + n <= a.seconds as int * n) by (nonlinear_arith)
            requires
                n == 1_000_000_000,
        ;
    }

    /// utimensat(path, atime, mtime): both times are stored truncated to the fs granularity.
    /// PROTOCOL: only on a private file (stamping before publication) or on a cache entry
    /// (maintenance reprieve); never under a read-only root.
    #[verifier::external_body]
    pub fn set_file_times(p: &Path, atime: FileTime, mtime: FileTime, Tracked(w): Tracked<&mut World>) -> (r: std::io::Result<()>)
        requires
            old(w).inv(),
            old(w).may_mutate(pv(p)),   // @L C15 C16:mutation-confined-to-cache-namespace
            atime.wf() && mtime.wf(),
            mtime.ns() <= old(w).now,   // @L C09:never-future-date-an-entry
        ensures
            final(w).stepped(*old(w)),
            final(w).inv(),
            final(w).now == old(w).now,
                final(w).listed == old(w).listed,
            final(w).opens == old(w).opens,
            final(w).published == old(w).published,
            match r {
                Ok(()) => {
                    &&& old(w).files.contains_key(pv(p))
                    &&& *final(w) == (World {
                        inodes: old(w).inodes.insert(
                            old(w).files[pv(p)],
                            Inode {
                                atime: trunc(atime.ns(), old(w).gran),
                                mtime: trunc(mtime.ns(), old(w).gran),
                                ..old(w).inode_at(pv(p))
                            },
                        ),
                        steps: old(w).steps + 1,
                        ..*old(w)
                    })
                },
                Err(e) => {
                    &&& final(w).same_fs(*old(w))
                    &&& (absent_err(e) ==> !old(w).files.contains_key(pv(p)))
                    &&& final(w).hard_faults == old(w).hard_faults + if absent_err(e) { 0nat } else { 1nat }
                },
            },
    {
        unimplemented!()
    }

    /// utimensat(path, atime, UTIME_OMIT): access time only.
    #[verifier::external_body]
    pub fn set_file_atime(p: &Path, atime: FileTime, Tracked(w): Tracked<&mut World>) -> (r: std::io::Result<()>)
        requires
            old(w).inv(),
            atime.wf(),
        ensures
            final(w).stepped(*old(w)),
            final(w).inv(),
            final(w).now == old(w).now,
                final(w).listed == old(w).listed,
            final(w).opens == old(w).opens,
            final(w).published == old(w).published,
            match r {
                Ok(()) => {
                    &&& old(w).files.contains_key(pv(p))
                    &&& *final(w) == (World {
                        inodes: old(w).inodes.insert(
                            old(w).files[pv(p)],
                            Inode { atime: trunc(atime.ns(), old(w).gran), ..old(w).inode_at(pv(p)) },
                        ),
                        steps: old(w).steps + 1,
                        ..*old(w)
                    })
                },
                Err(e) => {
                    &&& final(w).same_fs(*old(w))
                    &&& (absent_err(e) ==> !old(w).files.contains_key(pv(p)))
                    &&& (!old(w).files.contains_key(pv(p)) && !old(w).dirs.contains(pv(p)) ==> absent_err(e) || final(w).hard_faults > old(w).hard_faults)
                    &&& final(w).hard_faults == old(w).hard_faults + if absent_err(e) { 0nat } else { 1nat }
                },
            },
    {
        unimplemented!()
    }

    /// futimens(fd, atime?, mtime?): `None` leaves that time alone.
    #[verifier::external_body]
    pub fn set_file_handle_times(f: &std::fs::File, atime: Option<FileTime>, mtime: Option<FileTime>, Tracked(w): Tracked<&mut World>) -> (r: std::io::Result<()>)
        requires
            old(w).inv(),
            mtime.is_none(),    // @L C09 C15:reads-never-touch-mtime
            atime.is_some() ==> atime.unwrap().wf(),
            old(w).inodes.contains_key(f.ino()),
        ensures
            final(w).stepped(*old(w)),
            final(w).inv(),
            final(w).now == old(w).now,
                final(w).listed == old(w).listed,
            final(w).opens == old(w).opens,
            final(w).published == old(w).published,
            match r {
                Ok(()) => {
                    *final(w) == (World {
                        inodes: old(w).inodes.insert(
                            f.ino(),
                            Inode {
                                atime: if atime.is_some() { trunc(atime.unwrap().ns(), old(w).gran) } else { old(w).inodes[f.ino()].atime },
                                ..old(w).inodes[f.ino()]
                            },
                        ),
                        steps: old(w).steps + 1,
                        ..*old(w)
                    })
                },
                Err(e) => {
                    &&& final(w).same_fs(*old(w))
                    &&& final(w).hard_faults == old(w).hard_faults + 1
                },
            },
    {
        unimplemented!()
    }
}

// ---- std -----------------------------------------------------------------------------------------
pub mod libc {
    use super::*;

    pub const ESTALE: i32 = 116;

    // the Linux errno values a change to the crate may plausibly mention (plain numbers; nothing is assumed about them)
    pub const EPERM: i32 = 1;

    pub const ENOENT: i32 = 2;

    pub const EINTR: i32 = 4;

    pub const EIO: i32 = 5;

    pub const EAGAIN: i32 = 11;

    pub const EACCES: i32 = 13;

    pub const EBUSY: i32 = 16;

    pub const EEXIST: i32 = 17;

    pub const EXDEV: i32 = 18;

    pub const ENOTDIR: i32 = 20;

    pub const EISDIR: i32 = 21;

    pub const EINVAL: i32 = 22;

    pub const EMFILE: i32 = 24;

    pub const ENOSPC: i32 = 28;

    pub const EROFS: i32 = 30;

    pub const EMLINK: i32 = 31;

    pub const ENOTEMPTY: i32 = 39;

    pub const EDQUOT: i32 = 122;

    pub const LOCK_SH: i32 = 1;

    pub const LOCK_EX: i32 = 2;

    pub const LOCK_NB: i32 = 4;

    pub const LOCK_UN: i32 = 8;

    /// flock(2) (C06 C20): never called; precondition `false`.
    #[verifier::external_body]
    pub fn flock(fd: i32, op: i32) -> (rc: i32)
        requires
            false,   // @L C06 C20:no-operation-ever-takes-a-lock
    {
        unimplemented!()
    }

    /// close(2): no effect on the modelled filesystem (descriptors are not modelled); a failure is a counted hard fault.
    #[verifier::external_body]
    pub fn close(fd: i32, Tracked(w): Tracked<&mut World>) -> (rc: i32)
        requires
            old(w).inv(),
        ensures
            final(w).inv(),
            final(w).same_fs(*old(w)),
            final(w).kept(*old(w)) && final(w).listed == old(w).listed && final(w).published == old(w).published && final(w).now == old(w).now,
            final(w).opens == old(w).opens && final(w).steps == old(w).steps + 1,
            final(w).hard_faults == old(w).hard_faults + if rc < 0 { 1nat } else { 0nat },
    {
        unimplemented!()
    }
}

/// Stand-in for `std::io::Error::last_os_error()` (T2).
#[verifier::external_body]
pub fn io_last_os_error() -> ::std::io::Error {
    ::std::io::Error::last_os_error()
}

pub mod std {
    pub use ::std::borrow;
    pub use ::std::path;
    pub use ::std::ffi;
    pub use ::std::sync;
    // the parts of std that have no stand-in are the real ones
    pub use ::std::cmp;
    pub use ::std::convert;
    pub use ::std::mem;
    pub use ::std::ops;
    pub use ::std::iter;
    pub use ::std::option;
    pub use ::std::result;
    pub use ::std::collections;
    pub use ::std::str;
    pub use ::std::string;
    pub use ::std::vec;
    pub use ::std::fmt;
    pub use ::std::num;
    pub use ::std::marker;
    pub use ::std::panic;

    /// Waiting primitives (C06 C20): no operation of the crate ever waits for time to pass or for another
    /// participant.  The stand-ins can never be called: their precondition is `false`.
    pub mod thread {
        #[verifier::external_body]
        pub fn sleep(dur: super::time::Duration)
            requires
                false,   // @L C06 C20:no-operation-ever-sleeps-or-waits
        {
            unimplemented!()
        }

        #[verifier::external_body]
        pub fn yield_now()
            requires
                false,   // @L C06 C20:no-operation-ever-sleeps-or-waits
        {
            unimplemented!()
        }
    }

    pub mod hint {
        #[verifier::external_body]
        pub fn spin_loop()
            requires
                false,   // @L C06 C20:no-operation-ever-sleeps-or-waits
        {
            unimplemented!()
        }
    }

    pub mod time {
        use super::super::*;
        use vstd::std_specs::cmp::*;
        use core::cmp::Ordering;

        /// Stand-in for std::time::Duration (only whole seconds are ever constructed by the crate).
        #[derive(Clone, Copy)]
        pub struct Duration {
            pub secs: u64,
        }

        impl Duration {
            pub open spec fn ns(self) -> int {
                self.secs as int * ns_per_sec()
            }

            pub const fn from_secs(secs: u64) -> (r: Duration)
                ensures
                    r.secs == secs,
            {
                Duration { secs }
            }

            #[verifier::external_body]
            pub const fn from_millis(ms: u64) -> (r: Duration) {
                unimplemented!()
            }
        }

        /// Stand-in for std::time::SystemTime: nanoseconds since the epoch, ordered numerically.
        #[derive(Clone, Copy)]
        pub struct SystemTime {
            pub t: i128,
        }

        impl SystemTime {
            pub open spec fn ns(self) -> int {
                self.t as int
            }

            /// The same clock as FileTime::now().
            #[verifier::external_body]
            pub fn now(Tracked(w): Tracked<&mut World>) -> (r: SystemTime)
                requires
                    old(w).inv(),
                ensures
                    final(w).inv(),
                    r.ns() >= old(w).now,
                    *final(w) == (World { now: r.ns(), ..*old(w) }),
            {
                unimplemented!()
            }

            #[verifier::external_body]
            pub fn checked_sub(&self, d: Duration) -> (r: Option<SystemTime>)
                ensures
                    r.is_some() ==> r.unwrap().ns() == self.ns() - d.ns(),
                    r.is_none() ==> self.ns() < d.ns(),   // None only when the difference is not representable, which is far below the epoch
            {
                unimplemented!()
            }
        }

        impl PartialEqSpecImpl for SystemTime {
            open spec fn obeys_eq_spec() -> bool {
                true
            }

            open spec fn eq_spec(&self, other: &SystemTime) -> bool {
                self.t == other.t
            }
        }

        impl PartialEq for SystemTime {
            fn eq(&self, other: &SystemTime) -> (r: bool) {
                self.t == other.t
            }
        }

        impl PartialOrdSpecImpl for SystemTime {
            open spec fn obeys_partial_cmp_spec() -> bool {
                true
            }

            open spec fn partial_cmp_spec(&self, other: &SystemTime) -> Option<Ordering> {
                if self.t < other.t {
                    Some(Ordering::Less)
                } else if self.t == other.t {
                    Some(Ordering::Equal)
                } else {
                    Some(Ordering::Greater)
                }
            }
        }

        impl PartialOrd for SystemTime {
            fn partial_cmp(&self, other: &SystemTime) -> (r: Option<Ordering>) {
                if self.t < other.t {
                    Some(Ordering::Less)
                } else if self.t == other.t {
                    Some(Ordering::Equal)
                } else {
                    Some(Ordering::Greater)
                }
            }
        }
    }

    pub mod os {
        pub mod unix {
            pub mod fs {
                use super::super::super::super::*;

                pub trait PermissionsExt: Sized {
                    fn from_mode(mode: u32) -> Self;

                    fn mode(&self) -> u32;

                    fn set_mode(&mut self, mode: u32);
                }

                /// st_nlink (unspecified value) and the whole-second / nanosecond parts of st_atim / st_mtim.
                pub trait MetadataExt {
                    spec fn ext_atime_ns(&self) -> int;

                    spec fn ext_mtime_ns(&self) -> int;

                    fn nlink(&self) -> u64;

                    fn atime(&self) -> (r: i64)
                        ensures
                            r as int * ns_per_sec() <= self.ext_atime_ns() < (r as int + 1) * ns_per_sec(),
                    ;

                    fn mtime(&self) -> (r: i64)
                        ensures
                            r as int * ns_per_sec() <= self.ext_mtime_ns() < (r as int + 1) * ns_per_sec(),
                    ;

                    fn atime_nsec(&self) -> (r: i64)
                        ensures
                            0 <= r < ns_per_sec(),
                            (self.ext_atime_ns() - r as int) % ns_per_sec() == 0,
                    ;

                    fn mtime_nsec(&self) -> (r: i64)
                        ensures
                            0 <= r < ns_per_sec(),
                            (self.ext_mtime_ns() - r as int) % ns_per_sec() == 0,
                    ;
                }

                impl MetadataExt for std::fs::Metadata {
                    open spec fn ext_atime_ns(&self) -> int {
                        self.view().atime
                    }

                    open spec fn ext_mtime_ns(&self) -> int {
                        self.view().mtime
                    }

                    #[verifier::external_body]
                    fn nlink(&self) -> u64 {
                        unimplemented!()
                    }

                    #[verifier::external_body]
                    fn atime(&self) -> (r: i64) {
                        unimplemented!()
                    }

                    #[verifier::external_body]
                    fn mtime(&self) -> (r: i64) {
                        unimplemented!()
                    }

                    #[verifier::external_body]
                    fn atime_nsec(&self) -> (r: i64) {
                        unimplemented!()
                    }

                    #[verifier::external_body]
                    fn mtime_nsec(&self) -> (r: i64) {
                        unimplemented!()
                    }
                }

                impl PermissionsExt for std::fs::Permissions {
                    #[verifier::external_body]
                    fn from_mode(mode: u32) -> (r: Self)
                        ensures
                            r.mode_bits() == mode as int,
                            r.writable() == (mode & 0o222 != 0),
                    {
                        unimplemented!()
                    }

                    /// The last three clauses are bit-vector facts about the returned number (proved in
                    /// `lemma_masks_clear_write_bits`), stated here so that the usual ways of clearing the write
                    /// bits verify without a hint.
                    #[verifier::external_body]
                    fn mode(&self) -> (r: u32)
                        ensures
                            r as int == self.mode_bits(),
                            self.writable() == (r & 0o222 != 0),
                            (r & !0o222u32) & 0o222 == 0,
                            (r & 0o555u32) & 0o222 == 0,
                            (r & 0o444u32) & 0o222 == 0,
                    {
                        unimplemented!()
                    }

                    #[verifier::external_body]
                    fn set_mode(&mut self, mode: u32)
                        ensures
                            final(self).mode_bits() == mode as int,
                            final(self).writable() == (mode & 0o222 != 0),
                    {
                        unimplemented!()
                    }
                }
            }
        }

        pub mod fd {
            use super::super::super::*;

            pub trait IntoRawFd {
                fn into_raw_fd(self) -> i32;
            }

            impl IntoRawFd for std::fs::File {
                #[verifier::external_body]
                fn into_raw_fd(self) -> i32 {
                    unimplemented!()
                }
            }
        }
    }

    pub mod io {
        pub use ::std::io::Error;
        pub use ::std::io::ErrorKind;
        pub use ::std::io::Result;
        use super::super::*;

        pub enum SeekFrom {
            Start(u64),
            End(i64),
            Current(i64),
        }

        /// lseek(2) on our File stand-in: the handle keeps denoting the same inode; `Start(n)` positions it at n.
        pub trait Seek: Sized {
            fn seek(&mut self, pos: SeekFrom, Tracked(w): Tracked<&mut World>) -> (r: Result<u64>)
                requires
                    old(w).inv(),
                ensures
                    final(w).inv(),
                    final(w).same_fs(*old(w)),
                    final(w).kept(*old(w)) && final(w).listed == old(w).listed && final(w).published == old(w).published && final(w).now == old(w).now,
                    final(w).opens == old(w).opens && final(w).steps == old(w).steps + 1,
                    final(w).hard_faults == old(w).hard_faults + if r.is_err() { 1nat } else { 0nat },
                    old(self).seek_ok(*old(self), *final(self), pos, r),
            ;

            spec fn seek_ok(&self, before: Self, after: Self, pos: SeekFrom, r: Result<u64>) -> bool;

            /// `stream_position()` is `seek(SeekFrom::Current(0))`: the handle does not move.
            fn stream_position(&mut self, Tracked(w): Tracked<&mut World>) -> (r: Result<u64>)
                requires
                    old(w).inv(),
                ensures
                    final(w).inv(),
                    final(w).same_fs(*old(w)),
                    final(w).kept(*old(w)) && final(w).listed == old(w).listed && final(w).published == old(w).published && final(w).now == old(w).now,
                    final(w).opens == old(w).opens && final(w).steps == old(w).steps + 1,
                    final(w).hard_faults == old(w).hard_faults + if r.is_err() { 1nat } else { 0nat },
                    old(self).seek_ok(*old(self), *final(self), SeekFrom::Current(0), r),
            ;

            /// `rewind()` is `seek(SeekFrom::Start(0))` with the position dropped (the provided method of std).
            fn rewind(&mut self, Tracked(w): Tracked<&mut World>) -> (r: Result<()>)
                requires
                    old(w).inv(),
                ensures
                    final(w).inv(),
                    final(w).same_fs(*old(w)),
                    final(w).kept(*old(w)) && final(w).listed == old(w).listed && final(w).published == old(w).published && final(w).now == old(w).now,
                    final(w).opens == old(w).opens && final(w).steps == old(w).steps + 1,
                    final(w).hard_faults == old(w).hard_faults + if r.is_err() { 1nat } else { 0nat },
                    exists|n: u64| old(self).seek_ok(*old(self), *final(self), SeekFrom::Start(0), if r.is_ok() { Ok::<u64, Error>(n) } else { Err::<u64, Error>(err_of(r)) }),
            ;
        }

        /// What `copy` leaves in the destination: the bytes before its offset, then the source from its offset on.
        pub open spec fn copied(dst: Seq<u8>, woff: nat, src: Seq<u8>, roff: nat) -> Seq<u8> {
            dst.take(woff as int) + src.skip(roff as int)
        }

        pub proof fn lemma_copied_whole(src: Seq<u8>)
            ensures
                copied(Seq::<u8>::empty(), 0, src, 0) == src,
        {
            assert(Seq::<u8>::empty().take(0) + src.skip(0) =~= src);
        }

        /// std::io::copy, narrowed to the one instantiation the crate uses (File to File).  PROTOCOL (C01 C03 C19):
        /// only a file no reader can see is ever written.  One "step" stands for the whole read/write loop.
        #[verifier::external_body]
        pub fn copy(reader: &mut std::fs::File, writer: &mut std::fs::File, Tracked(w): Tracked<&mut World>) -> (r: Result<u64>)
            requires
                old(w).inv(),
                old(w).inodes.contains_key(old(reader).ino()),
                old(w).inodes.contains_key(old(writer).ino()),
                old(reader).ino() != old(writer).ino(),
                old(writer).can_write(),
                old(w).invisible(old(writer).ino()),   // @L C01 C03 C19:only-a-file-no-reader-can-see-is-ever-written
            ensures
                final(w).inv(),
                final(w).kept(*old(w)) && final(w).listed == old(w).listed && final(w).published == old(w).published,
                final(w).supplied == old(w).supplied && final(w).owned == old(w).owned && final(w).app_errors == old(w).app_errors && final(w).app_not_found == old(w).app_not_found,
                final(w).opens == old(w).opens && final(w).steps == old(w).steps + 1,
                final(w).hard_faults == old(w).hard_faults + if r.is_err() { 1nat } else { 0nat },
                final(w).files == old(w).files && final(w).dirs == old(w).dirs,
                final(reader).ino() == old(reader).ino() && final(reader).can_write() == old(reader).can_write(),
                final(writer).ino() == old(writer).ino() && final(writer).can_write() == old(writer).can_write(),
                forall|i: InodeId| #[trigger] final(w).inodes.contains_key(i) <==> old(w).inodes.contains_key(i),
                forall|i: InodeId| i != old(writer).ino() && old(w).inodes.contains_key(i) ==> #[trigger] final(w).inodes[i] == (Inode { atime: final(w).inodes[i].atime, ..old(w).inodes[i] }),
                final(w).inodes[old(writer).ino()] == (Inode {
                    content: final(w).inodes[old(writer).ino()].content,
                    mtime: trunc(final(w).now, old(w).gran),
                    atime: final(w).inodes[old(writer).ino()].atime,
                    synced: false,
                    ..old(w).inodes[old(writer).ino()]
                }),
                r.is_ok() ==> final(w).inodes[old(writer).ino()].content == copied(
                    old(w).inodes[old(writer).ino()].content,
                    old(writer).offset(),
                    old(w).inodes[old(reader).ino()].content,
                    old(reader).offset(),
                ),
        {
            unimplemented!()
        }

        /// read(2) until end of file on our File stand-in: appends the bytes from the current offset on.
        pub trait Read: Sized {
            fn read_to_end(&mut self, buf: &mut Vec<u8>, Tracked(w): Tracked<&mut World>) -> (r: Result<usize>)
                requires
                    old(w).inv(),
                    old(self).readable_in(*old(w)),
                ensures
                    final(w).inv(),
                    final(w).atime_only(*old(w)),
                    forall|i: InodeId| #[trigger] final(w).inodes.contains_key(i) ==> old(w).inodes.contains_key(i),
                    final(w).kept(*old(w)) && final(w).listed == old(w).listed && final(w).published == old(w).published && final(w).now == old(w).now,
                    final(w).opens == old(w).opens && final(w).steps == old(w).steps + 1,
                    final(w).hard_faults == old(w).hard_faults + if r.is_err() { 1nat } else { 0nat },
                    old(self).read_ok(*old(self), *final(self), old(buf)@, final(buf)@, *old(w), r),
            ;

            spec fn readable_in(&self, w: World) -> bool;

            spec fn read_ok(&self, before: Self, after: Self, buf0: Seq<u8>, buf1: Seq<u8>, w0: World, r: Result<usize>) -> bool;
        }

        impl Read for std::fs::File {
            open spec fn readable_in(&self, w: World) -> bool {
                w.inodes.contains_key(self.ino())
            }

            open spec fn read_ok(&self, before: Self, after: Self, buf0: Seq<u8>, buf1: Seq<u8>, w0: World, r: Result<usize>) -> bool {
                &&& after.ino() == before.ino()
                &&& after.can_write() == before.can_write()
                &&& (r.is_ok() ==> buf1 == buf0 + w0.inodes[before.ino()].content.skip(before.offset() as int))
            }

            #[verifier::external_body]
            fn read_to_end(&mut self, buf: &mut Vec<u8>, Tracked(w): Tracked<&mut World>) -> (r: Result<usize>) {
                unimplemented!()
            }
        }

        /// `(&file).seek(..)`: the shared-reference implementation of std moves the same descriptor.
        impl Seek for &std::fs::File {
            open spec fn seek_ok(&self, before: Self, after: Self, pos: SeekFrom, r: Result<u64>) -> bool {
                &&& after.ino() == before.ino()
                &&& after.can_write() == before.can_write()
            }

            #[verifier::external_body]
            fn seek(&mut self, pos: SeekFrom, Tracked(w): Tracked<&mut World>) -> (r: Result<u64>) {
                unimplemented!()
            }

            #[verifier::external_body]
            fn rewind(&mut self, Tracked(w): Tracked<&mut World>) -> (r: Result<()>) {
                unimplemented!()
            }

            #[verifier::external_body]
            fn stream_position(&mut self, Tracked(w): Tracked<&mut World>) -> (r: Result<u64>) {
                unimplemented!()
            }
        }

        impl Seek for std::fs::File {
            open spec fn seek_ok(&self, before: Self, after: Self, pos: SeekFrom, r: Result<u64>) -> bool {
                &&& after.ino() == before.ino()
                &&& after.can_write() == before.can_write()
                &&& (r.is_ok() && pos is Start ==> after.offset() == pos->Start_0)
            }

            #[verifier::external_body]
            fn seek(&mut self, pos: SeekFrom, Tracked(w): Tracked<&mut World>) -> (r: Result<u64>) {
                unimplemented!()
            }

            #[verifier::external_body]
            fn rewind(&mut self, Tracked(w): Tracked<&mut World>) -> (r: Result<()>) {
                unimplemented!()
            }

            #[verifier::external_body]
            fn stream_position(&mut self, Tracked(w): Tracked<&mut World>) -> (r: Result<u64>) {
                unimplemented!()
            }
        }
    }

    pub mod fs {
        use super::super::*;

        pub ghost struct MetaV {
            pub is_dir: bool,
            pub mtime: int,
            pub atime: int,
            pub writable: bool,
        }

        #[verifier::external_body]
        pub struct Metadata {
            x: u8,
        }

        impl Metadata {
            pub uninterp spec fn view(&self) -> MetaV;

            #[verifier::external_body]
            pub fn permissions(&self) -> (r: Permissions)
                ensures
                    r.writable() == self.view().writable,
            {
                unimplemented!()
            }

            #[verifier::external_body]
            pub fn is_dir(&self) -> (r: bool)
                ensures
                    r == self.view().is_dir,
            {
                unimplemented!()
            }

            /// st_size (nothing is assumed about it).
            pub uninterp spec fn size(&self) -> u64;

            #[verifier::external_body]
            pub fn len(&self) -> (r: u64)
                ensures
                    r == self.size(),
            {
                unimplemented!()
            }

            /// st_mtime as a SystemTime.  ASSUMPTION: on the Unix targets the crate supports this call cannot fail.
            #[verifier::external_body]
            pub fn modified(&self) -> (r: std::io::Result<std::time::SystemTime>)
                ensures
                    r.is_ok(),
                    r.unwrap().ns() == self.view().mtime,
            {
                unimplemented!()
            }

            #[verifier::external_body]
            pub fn file_type(&self) -> (r: FileType)
                ensures
                    r.dir() == self.view().is_dir,
            {
                unimplemented!()
            }
        }

        #[verifier::external_body]
        pub struct FileType {
            x: u8,
        }

        impl FileType {
            pub uninterp spec fn dir(&self) -> bool;

            #[verifier::external_body]
            pub fn is_dir(&self) -> (r: bool)
                ensures
                    r == self.dir(),
            {
                unimplemented!()
            }
        }

        #[verifier::external_body]
        pub struct Permissions {
            x: u8,
        }

        impl Permissions {
            pub uninterp spec fn writable(&self) -> bool;

            pub uninterp spec fn mode_bits(&self) -> int;

            #[verifier::external_body]
            pub fn readonly(&self) -> (r: bool)
                ensures
                    r == !self.writable(),
            {
                unimplemented!()
            }

            #[verifier::external_body]
            pub fn set_readonly(&mut self, readonly: bool)
                ensures
                    final(self).writable() == !readonly,
            {
                unimplemented!()
            }
        }

        /// An open file.  `ino()` is the inode the descriptor denotes (fixed at open time).
        #[verifier::external_body]
        pub struct File {
            x: u8,
        }

        impl ::std::fmt::Debug for File {
            #[verifier::external_body]
            fn fmt(&self, f: &mut ::std::fmt::Formatter<'_>) -> ::std::fmt::Result {
                Ok(())
            }
        }

        impl File {
            pub uninterp spec fn ino(&self) -> InodeId;

            pub uninterp spec fn can_write(&self) -> bool;

            /// Read/write position of the descriptor.
            pub uninterp spec fn offset(&self) -> nat;

            /// open(path, O_RDONLY).  The access time may or may not be advanced by the kernel
            /// (strict atime, relatime, noatime): both outcomes are allowed here, for every call.
            #[verifier::external_body]
            pub fn open(p: &Path, Tracked(w): Tracked<&mut World>) -> (r: std::io::Result<File>)
                requires
                    old(w).inv(),
                ensures
                    final(w).stepped(*old(w)),
                    final(w).inv(),
                    final(w).now == old(w).now,
                final(w).listed == old(w).listed,
                    final(w).opens == old(w).opens + 1,
                    final(w).published == old(w).published,
                    match r {
                        Ok(f) => {
                            &&& old(w).files.contains_key(pv(p))
                            &&& f.ino() == old(w).files[pv(p)]
                            &&& !f.can_write()
                            &&& f.offset() == 0
                            &&& final(w).hard_faults == old(w).hard_faults
                            &&& final(w).files == old(w).files
                            &&& final(w).dirs == old(w).dirs
                            &&& (final(w).inodes[f.ino()].atime == old(w).inodes[f.ino()].atime || final(w).inodes[f.ino()].atime >= old(w).inodes[f.ino()].mtime)
                            &&& final(w).inodes == old(w).inodes.insert(
                                f.ino(),
                                Inode { atime: final(w).inodes[f.ino()].atime, ..old(w).inodes[f.ino()] },
                            )
                        },
                        Err(e) => {
                            &&& final(w).same_fs(*old(w))
                            &&& (absent_err(e) ==> !old(w).files.contains_key(pv(p)))
                            &&& (!old(w).files.contains_key(pv(p)) && !old(w).dirs.contains(pv(p)) ==> absent_err(e) || final(w).hard_faults > old(w).hard_faults)
                            &&& final(w).hard_faults == old(w).hard_faults + if absent_err(e) { 0nat } else { 1nat }
                        },
                    },
            {
                unimplemented!()
            }

            /// open(path, O_WRONLY|O_CREAT|O_TRUNC).  PROTOCOL: values become visible by rename/link only; a file that is
            /// created, truncated or opened for writing BY NAME must be one no lookup can see.
            #[verifier::external_body]
            pub fn create(p: &Path, Tracked(w): Tracked<&mut World>) -> (r: std::io::Result<File>)
                requires
                    old(w).inv(),
                    old(w).may_write_open(pv(p)),   // @L C01 C02 C03 C19 C15 C16:a-file-is-never-created-or-opened-for-writing-under-a-name-a-lookup-can-see
                ensures
                    final(w).stepped(*old(w)),
                    final(w).inv(),
                    final(w).now == old(w).now,
                    final(w).listed == old(w).listed,
                    final(w).opens == old(w).opens + 1,
                    final(w).published == old(w).published,
                    final(w).owned == old(w).owned,
                    final(w).supplied == old(w).supplied,
                    match r {
                        Ok(f) => {
                            &&& f.can_write()
                            &&& f.offset() == 0
                            &&& final(w).hard_faults == old(w).hard_faults
                            &&& final(w).write_opened(*old(w), pv(p), f.ino())
                            &&& final(w).inodes[f.ino()].content == Seq::<u8>::empty()
                        },
                        Err(e) => final(w).same_fs(*old(w)) && final(w).hard_faults == old(w).hard_faults + 1,
                    },
            {
                unimplemented!()
            }

            /// fchmod(fd, mode).  PROTOCOL (C03 C19): write permission is never added to an inode that a visible
            /// name binds (here: the inode must have no link in a cache namespace unless the new mode is read-only).
            #[verifier::external_body]
            pub fn set_permissions(&self, perm: Permissions, Tracked(w): Tracked<&mut World>) -> (r: std::io::Result<()>)
                requires
                    old(w).inv(),
                    old(w).inodes.contains_key(self.ino()),
                    !perm.writable() || forall|q: PathV| #[trigger] old(w).files.contains_key(q) && old(w).files[q] == self.ino() ==> !old(w).in_cache_namespace(q),   // @L C03 C19 C02:write-permission-is-never-added-to-a-visible-file
                    old(w).not_ro_linked(self.ino()),   // @L C15:nothing-under-a-read-only-root-is-ever-re-moded
                ensures
                    final(w).stepped(*old(w)),
                    final(w).inv(),
                    final(w).now == old(w).now,
                    final(w).listed == old(w).listed,
                    final(w).opens == old(w).opens,
                    final(w).published == old(w).published,
                    match r {
                        Ok(()) => {
                            &&& final(w).hard_faults == old(w).hard_faults
                            &&& final(w).only_inode_changed(*old(w), self.ino(), Inode { writable: perm.writable(), mode: perm.mode_bits(), ..old(w).inodes[self.ino()] })
                        },
                        Err(e) => final(w).same_fs(*old(w)) && final(w).hard_faults == old(w).hard_faults + 1,
                    },
            {
                unimplemented!()
            }

            /// Advisory locks (C06 C20): the crate is lock-free.  These stand-ins can never be called: precondition `false`.
            #[verifier::external_body]
            pub fn lock(&self) -> (r: std::io::Result<()>)
                requires
                    false,   // @L C06 C20:no-operation-ever-takes-a-lock
            {
                unimplemented!()
            }

            #[verifier::external_body]
            pub fn lock_shared(&self) -> (r: std::io::Result<()>)
                requires
                    false,   // @L C06 C20:no-operation-ever-takes-a-lock
            {
                unimplemented!()
            }

            #[verifier::external_body]
            pub fn try_lock(&self) -> (r: std::io::Result<()>)
                requires
                    false,   // @L C06 C20:no-operation-ever-takes-a-lock
            {
                unimplemented!()
            }

            #[verifier::external_body]
            pub fn try_lock_shared(&self) -> (r: std::io::Result<()>)
                requires
                    false,   // @L C06 C20:no-operation-ever-takes-a-lock
            {
                unimplemented!()
            }

            #[verifier::external_body]
            pub fn unlock(&self) -> (r: std::io::Result<()>)
                requires
                    false,   // @L C06 C20:no-operation-ever-takes-a-lock
            {
                unimplemented!()
            }

            /// ftruncate(fd, size).  PROTOCOL (C01 C03 C19): like every write, only on a file no reader can see.  The bytes
            /// change (a prefix, or zero padding), the file is dirty again.
            #[verifier::external_body]
            pub fn set_len(&self, size: u64, Tracked(w): Tracked<&mut World>) -> (r: std::io::Result<()>)
                requires
                    old(w).inv(),
                    old(w).inodes.contains_key(self.ino()),
                    self.can_write() && old(w).invisible(self.ino()),   // @L C01 C03 C19:only-a-file-no-reader-can-see-is-ever-written
                ensures
                    final(w).stepped(*old(w)),
                    final(w).inv(),
                    final(w).now == old(w).now,
                    final(w).listed == old(w).listed,
                    final(w).opens == old(w).opens,
                    final(w).published == old(w).published,
                    final(w).hard_faults == old(w).hard_faults + if r.is_err() { 1nat } else { 0nat },
                    match r {
                        Ok(()) => {
                            &&& final(w).only_inode_changed(
                                *old(w),
                                self.ino(),
                                Inode {
                                    content: final(w).inodes[self.ino()].content,
                                    mtime: final(w).inodes[self.ino()].mtime,
                                    synced: false,
                                    ..old(w).inodes[self.ino()]
                                },
                            )
                            &&& final(w).inodes[self.ino()].content.len() == size
                            &&& (size as int <= old(w).inodes[self.ino()].content.len() ==> final(w).inodes[self.ino()].content == old(w).inodes[self.ino()].content.take(size as int))
                            &&& (final(w).inodes[self.ino()].mtime == old(w).inodes[self.ino()].mtime || final(w).inodes[self.ino()].mtime == trunc(old(w).now, old(w).gran))
                        },
                        Err(e) => final(w).same_fs(*old(w)),
                    },
            {
                unimplemented!()
            }

            /// fsync(fd): on success the contents are on stable storage.
            #[verifier::external_body]
            pub fn sync_all(&self, Tracked(w): Tracked<&mut World>) -> (r: std::io::Result<()>)
                requires
                    old(w).inv(),
                    old(w).inodes.contains_key(self.ino()),
                ensures
                    final(w).stepped(*old(w)),
                    final(w).inv(),
                    final(w).now == old(w).now,
                    final(w).listed == old(w).listed,
                    final(w).opens == old(w).opens,
                    final(w).published == old(w).published,
                    match r {
                        Ok(()) => {
                            &&& final(w).hard_faults == old(w).hard_faults
                            &&& final(w).only_inode_changed(*old(w), self.ino(), Inode { synced: true, ..old(w).inodes[self.ino()] })
                        },
                        // a failed fsync is sticky: the kernel may drop the dirty pages and report success next time
                        Err(e) => final(w).only_inode_changed(*old(w), self.ino(), Inode { flush_failed: true, ..old(w).inodes[self.ino()] }) && final(w).hard_faults
                            == old(w).hard_faults + 1,
                    },
            {
                unimplemented!()
            }

            /// `file.sync_all().expect(msg)`: the one documented panic (a failed flush of a caller-supplied path).
            /// T2: `.sync_all().expect(` is rebound to this stand-in, which returns only if the flush succeeded.
            #[verifier::external_body]
            pub fn sync_all_or_panic(&self, msg: &str, Tracked(w): Tracked<&mut World>)
                requires
                    old(w).inv(),
                    old(w).inodes.contains_key(self.ino()),
                ensures
                    final(w).stepped(*old(w)),
                    final(w).inv(),
                    final(w).now == old(w).now,
                    final(w).listed == old(w).listed,
                    final(w).opens == old(w).opens,
                    final(w).published == old(w).published,
                    final(w).hard_faults == old(w).hard_faults,
                    final(w).only_inode_changed(*old(w), self.ino(), Inode { synced: true, ..old(w).inodes[self.ino()] }),
            {
                unimplemented!()
            }

            /// fstat(fd)
            #[verifier::external_body]
            pub fn metadata(&self, Tracked(w): Tracked<&mut World>) -> (r: std::io::Result<Metadata>)
                requires
                    old(w).inv(),
                ensures
                    final(w).stepped(*old(w)),
                    final(w).inv(),
                    final(w).now == old(w).now,
                final(w).listed == old(w).listed,
                    final(w).opens == old(w).opens,
                    final(w).published == old(w).published,
                    final(w).same_fs(*old(w)),
                    match r {
                        Ok(m) => {
                            &&& final(w).hard_faults == old(w).hard_faults
                            &&& m.view().mtime == old(w).inodes[self.ino()].mtime
                            &&& m.view().atime == old(w).inodes[self.ino()].atime
                            &&& m.view().writable == old(w).inodes[self.ino()].writable
                            &&& !m.view().is_dir
                        },
                        Err(e) => final(w).hard_faults == old(w).hard_faults + 1,
                    },
            {
                unimplemented!()
            }
        }

        /// `OpenOptions`: only the flags matter that decide whether the file may be created or written.
        pub struct OpenOptions {
            pub ghost_write: bool,
        }

        impl OpenOptions {
            #[verifier::external_body]
            pub fn new() -> (r: OpenOptions)
                ensures
                    !r.ghost_write,
            {
                unimplemented!()
            }

            #[verifier::external_body]
            pub fn read(&mut self, on: bool) -> (r: &mut OpenOptions)
                ensures
                    r.ghost_write == old(self).ghost_write,
                    *final(self) == *final(r),
            {
                unimplemented!()
            }

            #[verifier::external_body]
            pub fn write(&mut self, on: bool) -> (r: &mut OpenOptions)
                ensures
                    r.ghost_write == (old(self).ghost_write || on),
                    *final(self) == *final(r),
            {
                unimplemented!()
            }

            #[verifier::external_body]
            pub fn append(&mut self, on: bool) -> (r: &mut OpenOptions)
                ensures
                    r.ghost_write == (old(self).ghost_write || on),
                    *final(self) == *final(r),
            {
                unimplemented!()
            }

            #[verifier::external_body]
            pub fn truncate(&mut self, on: bool) -> (r: &mut OpenOptions)
                ensures
                    r.ghost_write == (old(self).ghost_write || on),
                    *final(self) == *final(r),
            {
                unimplemented!()
            }

            #[verifier::external_body]
            pub fn create(&mut self, on: bool) -> (r: &mut OpenOptions)
                ensures
                    r.ghost_write == (old(self).ghost_write || on),
                    *final(self) == *final(r),
            {
                unimplemented!()
            }

            #[verifier::external_body]
            pub fn create_new(&mut self, on: bool) -> (r: &mut OpenOptions)
                ensures
                    r.ghost_write == (old(self).ghost_write || on),
                    *final(self) == *final(r),
            {
                unimplemented!()
            }

            /// open(path, flags).  With none of write/append/truncate/create set this is `File::open`; otherwise the
            /// protocol precondition of `File::create` applies and the result is only known to be valid.
            #[verifier::external_body]
            pub fn open(&self, p: &Path, Tracked(w): Tracked<&mut World>) -> (r: std::io::Result<File>)
                requires
                    old(w).inv(),
                    self.ghost_write ==> old(w).may_write_open(pv(p)),   // @L C01 C02 C03 C19 C15 C16:a-file-is-never-created-or-opened-for-writing-under-a-name-a-lookup-can-see
                ensures
                    final(w).stepped(*old(w)),
                    final(w).inv(),
                    final(w).now == old(w).now,
                    final(w).listed == old(w).listed,
                    final(w).opens == old(w).opens + 1,
                    final(w).published == old(w).published,
                    final(w).owned == old(w).owned,
                    final(w).supplied == old(w).supplied,
                    match r {
                        Ok(f) => {
                            &&& f.can_write() == self.ghost_write
                            &&& final(w).hard_faults == old(w).hard_faults
                            &&& if self.ghost_write {
                                final(w).write_opened(*old(w), pv(p), f.ino())
                            } else {
                                &&& f.offset() == 0
                                &&& old(w).files.contains_key(pv(p)) && f.ino() == old(w).files[pv(p)]
                                &&& final(w).files == old(w).files && final(w).dirs == old(w).dirs
                                &&& (final(w).inodes[f.ino()].atime == old(w).inodes[f.ino()].atime || final(w).inodes[f.ino()].atime >= old(w).inodes[f.ino()].mtime)
                                &&& final(w).inodes == old(w).inodes.insert(f.ino(), Inode { atime: final(w).inodes[f.ino()].atime, ..old(w).inodes[f.ino()] })
                            }
                        },
                        Err(e) => {
                            &&& final(w).same_fs(*old(w))
                            &&& (absent_err(e) ==> !old(w).files.contains_key(pv(p)))
                            &&& final(w).hard_faults == old(w).hard_faults + if absent_err(e) { 0nat } else { 1nat }
                        },
                    },
            {
                unimplemented!()
            }
        }

        /// unlink(path).  PROTOCOL: only private files, cache entries, or children of `.kismet_temp`.
        #[verifier::external_body]
        pub fn remove_file(p: &Path, Tracked(w): Tracked<&mut World>) -> (r: std::io::Result<()>)
            requires
                old(w).inv(),
                old(w).may_mutate(pv(p)),   // @L C15 C16 C17:unlink-confined-to-cache-namespace
            ensures
                final(w).stepped(*old(w)),
                final(w).inv(),
                final(w).now == old(w).now,
                final(w).listed == old(w).listed,
                final(w).opens == old(w).opens,
                final(w).published == old(w).published,
                match r {
                    Ok(()) => {
                        &&& old(w).files.contains_key(pv(p))
                        &&& final(w).files == old(w).files.remove(pv(p))
                        &&& final(w).dirs == old(w).dirs
                        &&& final(w).inodes == old(w).inodes
                        &&& final(w).hard_faults == old(w).hard_faults
                    },
                    Err(e) => {
                        &&& final(w).same_fs(*old(w))
                        &&& (absent_err(e) ==> !old(w).files.contains_key(pv(p)))
                        &&& final(w).hard_faults == old(w).hard_faults + if absent_err(e) { 0nat } else { 1nat }
                    },
                },
        {
            unimplemented!()
        }

        /// lstat(path)
        #[verifier::external_body]
        pub fn symlink_metadata(p: &Path, Tracked(w): Tracked<&mut World>) -> (r: std::io::Result<Metadata>)
            requires
                old(w).inv(),
            ensures
                final(w).stepped(*old(w)),
                final(w).inv(),
                final(w).now == old(w).now,
                final(w).listed == old(w).listed,
                final(w).opens == old(w).opens,
                final(w).published == old(w).published,
                final(w).same_fs(*old(w)),
                match r {
                    Ok(m) => {
                        &&& final(w).hard_faults == old(w).hard_faults
                        &&& (old(w).files.contains_key(pv(p)) || old(w).dirs.contains(pv(p)))
                        &&& m.view().is_dir == old(w).dirs.contains(pv(p))
                        &&& old(w).files.contains_key(pv(p)) ==> {
                            &&& m.view().mtime == old(w).inode_at(pv(p)).mtime
                            &&& m.view().atime == old(w).inode_at(pv(p)).atime
                            &&& m.view().writable == old(w).inode_at(pv(p)).writable
                        }
                    },
                    Err(e) => {
                        &&& (absent_err(e) ==> !old(w).files.contains_key(pv(p)) && !old(w).dirs.contains(pv(p)))
                        &&& final(w).hard_faults == old(w).hard_faults + if absent_err(e) { 0nat } else { 1nat }
                    },
                },
        {
            unimplemented!()
        }

        /// stat(path) (no symlinks in the model: same as lstat)
        #[verifier::external_body]
        pub fn metadata(p: &Path, Tracked(w): Tracked<&mut World>) -> (r: std::io::Result<Metadata>)
            requires
                old(w).inv(),
            ensures
                final(w).stepped(*old(w)),
                final(w).inv(),
                final(w).now == old(w).now,
                final(w).listed == old(w).listed,
                final(w).opens == old(w).opens,
                final(w).published == old(w).published,
                final(w).same_fs(*old(w)),
                match r {
                    Ok(m) => {
                        &&& final(w).hard_faults == old(w).hard_faults
                        &&& (old(w).files.contains_key(pv(p)) || old(w).dirs.contains(pv(p)))
                        &&& m.view().is_dir == old(w).dirs.contains(pv(p))
                    },
                    Err(e) => {
                        &&& (absent_err(e) ==> !old(w).files.contains_key(pv(p)) && !old(w).dirs.contains(pv(p)))
                        &&& final(w).hard_faults == old(w).hard_faults + if absent_err(e) { 0nat } else { 1nat }
                    },
                },
        {
            unimplemented!()
        }

        /// chmod(path, perms).  PROTOCOL (C03 C19): only on a private, unpublished file.
        #[verifier::external_body]
        pub fn set_permissions(p: &Path, perm: Permissions, Tracked(w): Tracked<&mut World>) -> (r: std::io::Result<()>)
            requires
                old(w).inv(),
                old(w).owned.contains(pv(p)) && !old(w).under_ro(pv(p)) && (old(w).private_inode(pv(p)) || !perm.writable()),   // @L C03 C19 C15 C02:write-permission-is-never-added-to-a-visible-file
            ensures
                final(w).stepped(*old(w)),
                final(w).inv(),
                final(w).now == old(w).now,
                final(w).listed == old(w).listed,
                final(w).opens == old(w).opens,
                final(w).published == old(w).published,
                match r {
                    Ok(()) => {
                        &&& old(w).files.contains_key(pv(p))
                        &&& final(w).hard_faults == old(w).hard_faults
                        &&& final(w).files == old(w).files
                        &&& final(w).dirs == old(w).dirs
                        &&& final(w).inodes == old(w).inodes.insert(
                            old(w).files[pv(p)],
                            Inode { writable: perm.writable(), ..old(w).inode_at(pv(p)) },
                        )
                    },
                    Err(e) => {
                        &&& final(w).same_fs(*old(w))
                        &&& (absent_err(e) ==> !old(w).files.contains_key(pv(p)))
                        &&& final(w).hard_faults == old(w).hard_faults + if absent_err(e) { 0nat } else { 1nat }
                    },
                },
        {
            unimplemented!()
        }

        /// rename(from, to): atomic replace.  PROTOCOL (C01 C02 C03 C16 C19): `to` is a cache entry,
        /// `from` is private, read-only, freshly stamped, synced if required, and carries a value
        /// supplied for that key.
        #[verifier::external_body]
        pub fn rename(from: &Path, to: &Path, Tracked(w): Tracked<&mut World>) -> (r: std::io::Result<()>)
            requires
                old(w).inv(),
                old(w).is_entry(pv(to)) && !old(w).under_ro(pv(to)),   // @L C16 C15 C01:publish-target-is-a-cache-entry
                old(w).publishable(pv(from), pv(to)),   // @L C01 C02 C03 C19:publish-only-private-finished-readonly-files
                pv(from) != pv(to),
            ensures
                final(w).stepped(*old(w)),
                final(w).inv(),
                final(w).now == old(w).now,
                final(w).listed == old(w).listed,
                final(w).opens == old(w).opens,
                final(w).published == old(w).published + if r.is_ok() { 1nat } else { 0nat },
                r.is_ok() ==> final(w).pub_listed == final(w).listed,
                match r {
                    Ok(()) => {
                        &&& old(w).files.contains_key(pv(from))
                        &&& old(w).dirs.contains(parent(pv(to)))
                        &&& final(w).hard_faults == old(w).hard_faults
                        // POSIX: if `from` and `to` are links to the same file, rename does nothing and succeeds
                        &&& final(w).files == (if old(w).files.contains_key(pv(to)) && old(w).files[pv(to)] == old(w).files[pv(from)] {
                            old(w).files
                        } else {
                            old(w).files.remove(pv(from)).insert(pv(to), old(w).files[pv(from)])
                        })
                        &&& final(w).dirs == old(w).dirs
                        &&& final(w).inodes == old(w).inodes
                    },
                    Err(e) => {
                        &&& final(w).same_fs(*old(w))
                        &&& (absent_err(e) ==> !old(w).files.contains_key(pv(from)) || !old(w).dirs.contains(parent(pv(to))))
                        &&& final(w).hard_faults == old(w).hard_faults + if absent_err(e) { 0nat } else { 1nat }
                    },
                },
        {
            unimplemented!()
        }

        /// link(from, to): fails with EEXIST iff `to` exists at that instant.  Same PROTOCOL as rename.
        #[verifier::external_body]
        pub fn hard_link(from: &Path, to: &Path, Tracked(w): Tracked<&mut World>) -> (r: std::io::Result<()>)
            requires
                old(w).inv(),
                old(w).is_entry(pv(to)) && !old(w).under_ro(pv(to)),   // @L C16 C15 C01:publish-target-is-a-cache-entry
                old(w).publishable(pv(from), pv(to)),   // @L C01 C02 C03 C19:publish-only-private-finished-readonly-files
                pv(from) != pv(to),
            ensures
                final(w).stepped(*old(w)),
                final(w).inv(),
                final(w).now == old(w).now,
                final(w).listed == old(w).listed,
                final(w).opens == old(w).opens,
                final(w).published == old(w).published + if r.is_ok() { 1nat } else { 0nat },
                r.is_ok() ==> final(w).pub_listed == final(w).listed,
                match r {
                    Ok(()) => {
                        &&& old(w).files.contains_key(pv(from))
                        &&& !old(w).files.contains_key(pv(to))
                        &&& old(w).dirs.contains(parent(pv(to)))
                        &&& final(w).hard_faults == old(w).hard_faults
                        &&& final(w).files == old(w).files.insert(pv(to), old(w).files[pv(from)])
                        &&& final(w).dirs == old(w).dirs
                        &&& final(w).inodes == old(w).inodes
                    },
                    Err(e) => {
                        &&& final(w).same_fs(*old(w))
                        &&& (exists_err(e) ==> old(w).files.contains_key(pv(to)) || old(w).dirs.contains(pv(to)))
                        &&& (old(w).files.contains_key(pv(to)) && old(w).files.contains_key(pv(from)) && old(w).dirs.contains(parent(pv(to))) ==> exists_err(e) || final(w).hard_faults > old(w).hard_faults)
                        &&& (absent_err(e) ==> !old(w).files.contains_key(pv(from)) || !old(w).dirs.contains(parent(pv(to))))
                        &&& final(w).hard_faults == old(w).hard_faults + if absent_err(e) || exists_err(e) { 0nat } else { 1nat }
                    },
                },
        {
            unimplemented!()
        }

        /// std::fs::copy(from, to): creates `to` and streams the bytes of `from` into it, in place.  PROTOCOL (C01 C03
        /// C19): bytes are never streamed into a name a reader can look up; only a fresh private path may be the target.
        #[verifier::external_body]
        pub fn copy(from: &Path, to: &Path, Tracked(w): Tracked<&mut World>) -> (r: std::io::Result<u64>)
            requires
                old(w).inv(),
                old(w).owned.contains(pv(to)) && !old(w).in_cache_namespace(pv(to)) && !old(w).under_ro(pv(to)) && !(pv(to).len() > 0 && old(w).under_ro(parent(pv(to))))
                    && !old(w).files.contains_key(pv(to)) && !old(w).dirs.contains(pv(to)),   // @L C01 C03 C19 C15 C02:bytes-are-never-streamed-into-a-visible-name
            ensures
                final(w).inv(),
                final(w).kept(*old(w)) && final(w).listed == old(w).listed && final(w).published == old(w).published && final(w).now == old(w).now,
                final(w).supplied == old(w).supplied && final(w).owned == old(w).owned && final(w).app_errors == old(w).app_errors && final(w).app_not_found == old(w).app_not_found,
                final(w).opens == old(w).opens + 2 && final(w).steps == old(w).steps + 1,
                final(w).hard_faults == old(w).hard_faults + if r.is_err() && !(absent_err(err_of(r)) && !old(w).files.contains_key(pv(from))) { 1nat } else { 0nat },
                final(w).dirs == old(w).dirs,
                forall|p: PathV| p != pv(to) ==> (#[trigger] final(w).files.contains_key(p) <==> old(w).files.contains_key(p)) && (old(w).files.contains_key(p) ==> final(w).files[p] == old(w).files[p]),
                forall|i: InodeId| #[trigger] old(w).inodes.contains_key(i) ==> final(w).inodes.contains_key(i) && final(w).inodes[i] == (Inode { atime: final(w).inodes[i].atime, ..old(w).inodes[i] }),
                final(w).files.contains_key(pv(to)) ==> !old(w).inodes.contains_key(final(w).files[pv(to)]) && final(w).inodes.contains_key(final(w).files[pv(to)])
                    && final(w).inodes[final(w).files[pv(to)]].mtime == trunc(final(w).now, old(w).gran),
                forall|i: InodeId| #[trigger] final(w).inodes.contains_key(i) ==> old(w).inodes.contains_key(i) || (final(w).files.contains_key(pv(to)) && i == final(w).files[pv(to)]),
                r.is_ok() ==> old(w).files.contains_key(pv(from)) && final(w).files.contains_key(pv(to))
                    && final(w).inodes[final(w).files[pv(to)]].content == old(w).inode_at(pv(from)).content,
        {
            unimplemented!()
        }

        /// mkdir(path): one level, NOT idempotent.  Directory creation races with other participants by design
        /// (cache and shard directories are created lazily by whoever needs them first): `AlreadyExists` is the
        /// ordinary outcome of losing that race, so it is never a fault and nothing about the state follows from it.
        #[verifier::external_body]
        pub fn create_dir(p: &Path, Tracked(w): Tracked<&mut World>) -> (r: std::io::Result<()>)
            requires
                old(w).inv(),
                old(w).may_mkdir(pv(p)),   // @L C02 C15 C16:only-cache-directories-are-created
            ensures
                final(w).stepped(*old(w)),
                final(w).inv(),
                final(w).now == old(w).now,
                final(w).listed == old(w).listed,
                final(w).opens == old(w).opens,
                final(w).published == old(w).published,
                final(w).files == old(w).files,
                final(w).inodes == old(w).inodes,
                match r {
                    Ok(()) => {
                        &&& final(w).hard_faults == old(w).hard_faults
                        &&& !old(w).files.contains_key(pv(p))
                        &&& !old(w).dirs.contains(pv(p))
                        &&& final(w).dirs == old(w).dirs.insert(pv(p))
                    },
                    Err(e) => {
                        &&& final(w).dirs == old(w).dirs
                        &&& final(w).hard_faults == old(w).hard_faults + if err_kind(e) == ::std::io::ErrorKind::AlreadyExists || absent_err(e) {
                            0nat
                        } else {
                            1nat
                        }
                    },
                },
        {
            unimplemented!()
        }

        /// rmdir(path).  PROTOCOL: the library never removes a directory.
        #[verifier::external_body]
        pub fn remove_dir<P: AsRef<Path>>(p: P, Tracked(w): Tracked<&mut World>) -> (r: std::io::Result<()>)
            requires
                old(w).inv(),
                false,   // @L C17 C02 C15 C16:directories-are-never-removed
            ensures
                final(w).inv(),
        {
            unimplemented!()
        }

        /// rm -r path.  PROTOCOL: the library never removes a directory.
        #[verifier::external_body]
        pub fn remove_dir_all<P: AsRef<Path>>(p: P, Tracked(w): Tracked<&mut World>) -> (r: std::io::Result<()>)
            requires
                old(w).inv(),
                false,   // @L C17 C02 C15 C16:directories-are-never-removed
            ensures
                final(w).inv(),
        {
            unimplemented!()
        }

        /// mkdir -p.  Counts as one step.  PROTOCOL (C02 C15 C16): only cache directories and their
        /// `.kismet_temp` subdirectories are ever created.
        #[verifier::external_body]
        pub fn create_dir_all(p: &Path, Tracked(w): Tracked<&mut World>) -> (r: std::io::Result<()>)
            requires
                old(w).inv(),
                old(w).may_mkdir(pv(p)),   // @L C02 C15 C16:only-cache-directories-are-created
            ensures
                final(w).stepped(*old(w)),
                final(w).inv(),
                final(w).now == old(w).now,
                final(w).listed == old(w).listed,
                final(w).opens == old(w).opens,
                final(w).published == old(w).published,
                final(w).files == old(w).files,
                final(w).inodes == old(w).inodes,
                forall|d: PathV| #[trigger] final(w).dirs.contains(d) && !old(w).dirs.contains(d) ==> !old(w).files.contains_key(d),   // mkdir never succeeds on an existing name
                match r {
                    Ok(()) => {
                        &&& final(w).hard_faults == old(w).hard_faults
                        &&& final(w).dirs.contains(pv(p))
                        &&& forall|d: PathV| #[trigger] old(w).dirs.contains(d) ==> final(w).dirs.contains(d)
                        &&& forall|d: PathV| #[trigger] final(w).dirs.contains(d) ==> old(w).dirs.contains(d) || d.is_prefix_of(pv(p))
                    },
                    Err(e) => {
                        &&& final(w).hard_faults == old(w).hard_faults + 1
                        &&& forall|d: PathV| #[trigger] old(w).dirs.contains(d) ==> final(w).dirs.contains(d)
                        &&& forall|d: PathV| #[trigger] final(w).dirs.contains(d) ==> old(w).dirs.contains(d) || d.is_prefix_of(pv(p))
                    },
                },
        {
            unimplemented!()
        }

        /// One directory entry as returned by readdir.
        #[verifier::external_body]
        pub struct DirEntry {
            x: u8,
        }

        impl DirEntry {
            pub uninterp spec fn name(&self) -> Seq<u8>;

            pub uninterp spec fn dir(&self) -> PathV;

            /// lstat(dir/name) at the time of the call.
            #[verifier::external_body]
            pub fn metadata(&self, Tracked(w): Tracked<&mut World>) -> (r: std::io::Result<Metadata>)
                requires
                    old(w).inv(),
                ensures
                    final(w).stepped(*old(w)),
                    final(w).inv(),
                    final(w).now == old(w).now,
                final(w).listed == old(w).listed,
                    final(w).opens == old(w).opens,
                    final(w).published == old(w).published,
                    final(w).same_fs(*old(w)),
                    match r {
                        Ok(m) => {
                            &&& final(w).hard_faults == old(w).hard_faults
                            &&& (old(w).files.contains_key(child(self.dir(), self.name())) || old(w).dirs.contains(child(self.dir(), self.name())))
                            &&& m.view().is_dir == old(w).dirs.contains(child(self.dir(), self.name()))
                            &&& old(w).files.contains_key(child(self.dir(), self.name())) ==> {
                                &&& m.view().mtime == old(w).inode_at(child(self.dir(), self.name())).mtime
                                &&& m.view().atime == old(w).inode_at(child(self.dir(), self.name())).atime
                                &&& m.view().writable == old(w).inode_at(child(self.dir(), self.name())).writable
                            }
                        },
                        Err(e) => {
                            &&& (absent_err(e) ==> !old(w).files.contains_key(child(self.dir(), self.name())) && !old(w).dirs.contains(child(self.dir(), self.name())))
                            &&& final(w).hard_faults == old(w).hard_faults + if absent_err(e) { 0nat } else { 1nat }
                        },
                    },
            {
                unimplemented!()
            }

            #[verifier::external_body]
            pub fn file_name(&self) -> (r: ::std::ffi::OsString)
                ensures
                    os_bytes(r) == self.name(),
                    single_component(self.name()),
            {
                unimplemented!()
            }
        }

        /// An open directory stream.  `rem()` is what it will still yield.
        #[verifier::external_body]
        pub struct ReadDir {
            x: u8,
        }

        /// `ReadDir::flatten()`: the readable items only.
        #[verifier::external_body]
        pub struct FlatReadDir {
            x: u8,
        }

        /// `flatten()` skips `k` unreadable items (each a hard fault) and then yields the next readable one, or ends.
        pub open spec fn flat_step(l0: Seq<Option<Seq<u8>>>, k: int, name: Option<Seq<u8>>, l1: Seq<Option<Seq<u8>>>) -> bool {
            &&& 0 <= k <= l0.len()
            &&& forall|i: int| 0 <= i < k ==> (#[trigger] l0[i]).is_none()
            &&& match name {
                Some(n) => k < l0.len() && l0[k] == Some(n) && l1 == l0.skip(k + 1),
                None => k == l0.len() && l1.len() == 0,
            }
        }

        pub open spec fn opt_entry_name(r: Option<DirEntry>) -> Option<Seq<u8>> {
            match r {
                Some(e) => Some(e.name()),
                None => None,
            }
        }

        impl FlatReadDir {
            pub uninterp spec fn rem(&self) -> Seq<Option<Seq<u8>>>;

            pub uninterp spec fn dir(&self) -> PathV;

            /// Next readable item; unreadable ones are skipped (each a hard fault).
            #[verifier::external_body]
            pub fn next(&mut self, Tracked(w): Tracked<&mut World>) -> (r: Option<DirEntry>)
                requires
                    old(w).inv(),
                ensures
                    final(w).kept(*old(w)),
                    final(w).inv(),
                    final(w).now == old(w).now,
                    final(w).opens == old(w).opens,
                    final(w).published == old(w).published,
                    final(w).same_fs(*old(w)),
                    final(self).dir() == old(self).dir(),
                    final(self).rem().len() <= old(self).rem().len(),
                    final(w).steps - old(w).steps == old(self).rem().len() - final(self).rem().len() + if r.is_none() { 1int } else { 0int },
                    final(w).listed - old(w).listed == old(self).rem().len() - final(self).rem().len(),
                    match r {
                        None => final(self).rem().len() == 0,
                        Some(e) => {
                            &&& final(self).rem().len() < old(self).rem().len()
                            &&& e.dir() == old(self).dir()
                            &&& single_component(e.name())
                        },
                    },
                    exists|k: int| #[trigger] flat_step(old(self).rem(), k, opt_entry_name(r), final(self).rem()) && final(w).hard_faults == old(w).hard_faults + k,
            {
                unimplemented!()
            }
        }

        impl ReadDir {
            pub uninterp spec fn rem(&self) -> Seq<Option<Seq<u8>>>;

            pub uninterp spec fn dir(&self) -> PathV;

            #[verifier::external_body]
            pub fn flatten(self) -> (r: FlatReadDir)
                ensures
                    r.rem() == self.rem(),
                    r.dir() == self.dir(),
            {
                unimplemented!()
            }

            /// readdir(3): one item per call (T3 calls this explicitly; it counts as a filesystem step).
            #[verifier::external_body]
            pub fn next(&mut self, Tracked(w): Tracked<&mut World>) -> (r: Option<std::io::Result<DirEntry>>)
                requires
                    old(w).inv(),
                ensures
                    final(w).stepped(*old(w)),
                    final(w).inv(),
                    final(w).now == old(w).now,
                final(w).listed == old(w).listed + if r.is_some() { 1nat } else { 0nat },
                    final(w).opens == old(w).opens,
                    final(w).published == old(w).published,
                    final(w).same_fs(*old(w)),
                    final(self).dir() == old(self).dir(),
                    match r {
                        None => old(self).rem().len() == 0 && final(self).rem().len() == 0 && final(w).hard_faults == old(w).hard_faults,
                        Some(Ok(e)) => {
                            &&& old(self).rem().len() > 0
                            &&& old(self).rem()[0] == Some(e.name())
                            &&& e.dir() == old(self).dir()
                            &&& final(self).rem() == old(self).rem().drop_first()
                            &&& final(w).hard_faults == old(w).hard_faults
                        },
                        Some(Err(_)) => {
                            &&& old(self).rem().len() > 0
                            &&& old(self).rem()[0].is_none()
                            &&& final(self).rem() == old(self).rem().drop_first()
                            &&& final(w).hard_faults == old(w).hard_faults + 1
                        },
                    },
            {
                unimplemented!()
            }
        }

        /// opendir(path)
        #[verifier::external_body]
        pub fn read_dir(p: &Path, Tracked(w): Tracked<&mut World>) -> (r: std::io::Result<ReadDir>)
            requires
                old(w).inv(),
            ensures
                final(w).stepped(*old(w)),
                final(w).inv(),
                final(w).now == old(w).now,
                final(w).listed == old(w).listed,
                final(w).opens == old(w).opens + 1,
                final(w).published == old(w).published,
                final(w).same_fs(*old(w)),
                match r {
                    Ok(rd) => {
                        &&& old(w).dirs.contains(pv(p))
                        &&& rd.dir() == pv(p)
                        &&& listing_of(rd.rem(), *old(w), pv(p))
                        &&& rd.rem().len() < u64::MAX   // assumption: a directory holds fewer than 2^64 entries
                        &&& final(w).hard_faults == old(w).hard_faults
                    },
                    Err(e) => {
                        &&& (absent_err(e) ==> !old(w).dirs.contains(pv(p)))
                        &&& final(w).hard_faults == old(w).hard_faults + if absent_err(e) { 0nat } else { 1nat }
                    },
                },
        {
            unimplemented!()
        }
    }
}
