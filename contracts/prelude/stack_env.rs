// ---------------------------------------------------------------------------------------------
// Environment of readonly.rs / stack.rs: file offsets, seek, consistency checkers.
// ---------------------------------------------------------------------------------------------

/// Assumptions about a consistency checker (C14): it may be called on any two files; it only reads them
/// (the handles still denote the same inodes afterwards, and stay read-only handles) and its verdict is a
/// function of the two files: `accepts(c, a, b)`.
pub uninterp spec fn accepts<C>(c: C, a: InodeId, b: InodeId) -> bool;

#[verifier::prophetic]
pub open spec fn reads_only<C: Fn(&mut std::fs::File, &mut std::fs::File) -> ::std::io::Result<()>>(c: C) -> bool {
    &&& forall|x: &mut std::fs::File, y: &mut std::fs::File| #[trigger] call_requires(c, (x, y))
    &&& forall|x: &mut std::fs::File, y: &mut std::fs::File, ret: ::std::io::Result<()>|
        #[trigger] call_ensures(c, (x, y), ret) ==> {
            &&& final(x).ino() == x.ino() && final(y).ino() == y.ino()
            &&& final(x).can_write() == x.can_write() && final(y).can_write() == y.can_write()
            &&& ret.is_ok() == accepts(c, x.ino(), y.ino())
        }
}

/// T7: stand-in for `type ConsistencyChecker = Arc<dyn Fn(&mut File, &mut File) -> Result<()> + Sync + Send + ...>`
/// (Verus has no `dyn Fn`).  Call sites `checker(a, b)` become `checker.call(a, b)`.  The contract of `call` is the
/// ASSUMPTION made about every checker: it only reads its two files (the handles keep denoting the same inodes and
/// stay read-only handles), and its verdict is a function of the two files.
#[verifier::external_body]
pub struct ConsistencyChecker {
    x: u8,
}

pub uninterp spec fn checker_accepts(c: ConsistencyChecker, a: InodeId, b: InodeId) -> bool;

impl ConsistencyChecker {
    #[verifier::external_body]
    pub fn call(&self, a: &mut std::fs::File, b: &mut std::fs::File) -> (r: ::std::io::Result<()>)
        ensures
            final(a).ino() == old(a).ino() && final(b).ino() == old(b).ino(),
            final(a).can_write() == old(a).can_write() && final(b).can_write() == old(b).can_write(),
            r.is_ok() == checker_accepts(*self, old(a).ino(), old(b).ino()),
    {
        unimplemented!()
    }
}

impl Clone for ConsistencyChecker {
    #[verifier::external_body]
    fn clone(&self) -> (r: Self)
        ensures
            r == *self,
    {
        unimplemented!()
    }
}

// ---- tempfile ------------------------------------------------------------------------------------
pub mod tempfile {
    use super::*;

    /// A named temporary file: a fresh, private, writable, empty, not yet flushed regular file.
    #[verifier::external_body]
    pub struct NamedTempFile {
        x: u8,
    }

    /// The path of a former NamedTempFile whose descriptor has been closed (deleted on drop).
    #[verifier::external_body]
    pub struct TempPath {
        x: u8,
    }

    impl TempPath {
        pub uninterp spec fn pathv(&self) -> PathV;
    }

    impl ::std::ops::Deref for TempPath {
        type Target = Path;

        #[verifier::external_body]
        fn deref(&self) -> (r: &Path)
            ensures
                pv(r) == self.pathv(),
        {
            unimplemented!()
        }
    }

    /// `tempfile::Builder`: only the number of random name bytes matters here.
    #[verifier::external_body]
    pub struct Builder {
        x: u8,
    }

    impl Builder {
        pub uninterp spec fn rand(&self) -> nat;

        #[verifier::external_body]
        pub fn new() -> (r: Builder)
            ensures
                r.rand() == 6,
        {
            unimplemented!()
        }

        #[verifier::external_body]
        pub fn prefix(&mut self, p: &str) -> (r: &mut Builder)
            ensures
                r.rand() == old(self).rand(),
                *final(self) == *final(r),
        {
            unimplemented!()
        }

        #[verifier::external_body]
        pub fn suffix(&mut self, p: &str) -> (r: &mut Builder)
            ensures
                r.rand() == old(self).rand(),
                *final(self) == *final(r),
        {
            unimplemented!()
        }

        #[verifier::external_body]
        pub fn rand_bytes(&mut self, n: usize) -> (r: &mut Builder)
            ensures
                r.rand() == n,
                *final(self) == *final(r),
        {
            unimplemented!()
        }

        /// mkstemp in `dir` with this builder's naming.  PROTOCOL (C06 C05): a temporary file gets an unpredictable name;
        /// a fixed name (`rand_bytes(0)`) is a lock file: whoever dies holding it blocks everybody else.
        #[verifier::external_body]
        pub fn tempfile_in(&self, dir: &Path, Tracked(w): Tracked<&mut World>) -> (r: std::io::Result<NamedTempFile>)
            requires
                old(w).inv(),
                self.rand() > 0,   // @L C06 C05 C20:temporary-files-get-unpredictable-names-a-fixed-name-is-a-lock-file
                old(w).is_temp_dir(pv(dir)) && !old(w).under_ro(pv(dir)),   // @L C02 C15 C16:temporary-files-live-in-kismet-temp
            ensures
                final(w).inv(),
                final(w).kept(*old(w)) && final(w).steps == old(w).steps + 1 && final(w).opens == old(w).opens + 1,
                final(w).now == old(w).now && final(w).listed == old(w).listed && final(w).published == old(w).published && final(w).supplied == old(w).supplied,
                final(w).dirs == old(w).dirs,
                match r {
                    Ok(t) => {
                        &&& final(w).hard_faults == old(w).hard_faults
                        &&& t.offset() == 0
                        &&& t.pathv().len() > 0 && parent(t.pathv()) == pv(dir) && single_component(base_name(t.pathv()))
                        &&& !old(w).files.contains_key(t.pathv()) && !old(w).dirs.contains(t.pathv()) && !old(w).inodes.contains_key(t.ino())
                        &&& final(w).files == old(w).files.insert(t.pathv(), t.ino())
                        &&& final(w).inodes == old(w).inodes.insert(
                            t.ino(),
                            Inode { content: Seq::<u8>::empty(), writable: true, mode: 0o600, mtime: trunc(old(w).now, old(w).gran), atime: trunc(old(w).now, old(w).gran), synced: false, flush_failed: false },
                        )
                        &&& final(w).owned == old(w).owned.insert(t.pathv())
                    },
                    Err(e) => final(w).same_fs(*old(w)) && final(w).owned == old(w).owned && final(w).hard_faults == old(w).hard_faults + 1,
                },
        {
            unimplemented!()
        }
    }

    impl NamedTempFile {
        pub uninterp spec fn pathv(&self) -> PathV;

        pub uninterp spec fn ino(&self) -> InodeId;

        /// Position of the underlying descriptor.
        pub uninterp spec fn offset(&self) -> nat;

        /// mkstemp in `dir` (narrowed to the one argument type the crate uses).  PROTOCOL (C02): temporary files
        /// are only ever created inside the `.kismet_temp` subdirectory of a configured cache directory.
        #[verifier::external_body]
        pub fn new_in(dir: Cow<Path>, Tracked(w): Tracked<&mut World>) -> (r: std::io::Result<NamedTempFile>)
            requires
                old(w).inv(),
                old(w).is_temp_dir(cowv(dir)) && !old(w).under_ro(cowv(dir)),   // @L C02 C15 C16:temporary-files-live-in-kismet-temp
            ensures
                final(w).inv(),
                final(w).kept(*old(w)) && final(w).steps == old(w).steps + 1 && final(w).opens == old(w).opens + 1,
                final(w).now == old(w).now && final(w).listed == old(w).listed && final(w).published == old(w).published && final(w).supplied == old(w).supplied,
                final(w).dirs == old(w).dirs,
                match r {
                    Ok(t) => {
                        &&& final(w).hard_faults == old(w).hard_faults
                        &&& t.offset() == 0
                        &&& t.pathv().len() > 0 && parent(t.pathv()) == cowv(dir) && single_component(base_name(t.pathv()))
                        &&& !old(w).files.contains_key(t.pathv()) && !old(w).dirs.contains(t.pathv()) && !old(w).inodes.contains_key(t.ino())
                        &&& final(w).files == old(w).files.insert(t.pathv(), t.ino())
                        &&& final(w).inodes == old(w).inodes.insert(
                            t.ino(),
                            Inode { content: Seq::<u8>::empty(), writable: true, mode: 0o600, mtime: trunc(old(w).now, old(w).gran), atime: trunc(old(w).now, old(w).gran), synced: false, flush_failed: false },
                        )
                        &&& final(w).owned == old(w).owned.insert(t.pathv())
                    },
                    Err(e) => final(w).same_fs(*old(w)) && final(w).owned == old(w).owned && final(w).hard_faults == old(w).hard_faults + 1,
                },
        {
            unimplemented!()
        }

        /// Closes the descriptor and keeps the path (no chmod, no flush).
        #[verifier::external_body]
        pub fn into_temp_path(self) -> (r: TempPath)
            ensures
                r.pathv() == self.pathv(),
        {
            unimplemented!()
        }

        #[verifier::external_body]
        pub fn as_file(&self) -> (r: &std::fs::File)
            ensures
                r.ino() == self.ino(),
                r.can_write(),
        {
            unimplemented!()
        }

        #[verifier::external_body]
        pub fn as_file_mut(&mut self) -> (r: &mut std::fs::File)
            ensures
                r.ino() == old(self).ino(),
                r.can_write(),
                r.offset() == old(self).offset(),
                final(self).ino() == old(self).ino(),
                final(self).pathv() == old(self).pathv(),
        {
            unimplemented!()
        }

        /// open(path, O_RDWR) on the temporary file's own path: a second, read-write descriptor on the same inode.
        #[verifier::external_body]
        pub fn reopen(&self, Tracked(w): Tracked<&mut World>) -> (r: std::io::Result<std::fs::File>)
            requires
                old(w).inv(),
            ensures
                final(w).inv(),
                final(w).same_fs(*old(w)),
                final(w).kept(*old(w)) && final(w).listed == old(w).listed && final(w).published == old(w).published && final(w).now == old(w).now,
                final(w).steps == old(w).steps + 1 && final(w).opens == old(w).opens + 1,
                final(w).hard_faults == old(w).hard_faults + if r.is_err() { 1nat } else { 0nat },
                r.is_ok() ==> r.unwrap().ino() == self.ino() && r.unwrap().can_write() && r.unwrap().offset() == 0,
        {
            unimplemented!()
        }

        #[verifier::external_body]
        pub fn into_parts(self) -> (r: (std::fs::File, TempPath))
            ensures
                r.0.ino() == self.ino(),
                r.0.can_write(),
                r.1.pathv() == self.pathv(),
        {
            unimplemented!()
        }
    }

    /// What creating an anonymous temporary file does: a fresh, empty, writable inode that no name binds.
    pub open spec fn anon_created(old: World, fin: World, r: std::io::Result<std::fs::File>) -> bool {
        &&& fin.kept(old) && fin.steps == old.steps + 1 && fin.opens == old.opens + 1
        &&& fin.now == old.now && fin.listed == old.listed && fin.published == old.published && fin.supplied == old.supplied && fin.owned == old.owned
        &&& fin.app_errors == old.app_errors && fin.app_not_found == old.app_not_found
        &&& fin.dirs == old.dirs && fin.files == old.files
        &&& match r {
            Ok(f) => {
                &&& fin.hard_faults == old.hard_faults
                &&& !old.inodes.contains_key(f.ino())
                &&& f.can_write() && f.offset() == 0
                &&& fin.inodes == old.inodes.insert(
                    f.ino(),
                    Inode { content: Seq::<u8>::empty(), writable: true, mode: 0o600, mtime: trunc(old.now, old.gran), atime: trunc(old.now, old.gran), synced: false, flush_failed: false },
                )
            },
            Err(e) => fin.inodes == old.inodes && fin.hard_faults == old.hard_faults + 1,
        }
    }

    /// An anonymous temporary file is bound by no name at all, so no reader can see it.
    pub proof fn lemma_anon_invisible(old: World, fin: World, r: std::io::Result<std::fs::File>)
        requires
            old.env_ok(),
            anon_created(old, fin, r),
            r.is_ok(),
        ensures
            fin.invisible(r.unwrap().ino()),
            fin.inodes.contains_key(r.unwrap().ino()),
            fin.inodes[r.unwrap().ino()].content.len() == 0,
            bytes_kept(old, fin),
            forall|i: InodeId| #[trigger] old.inodes.contains_key(i) ==> fin.inodes[i] == old.inodes[i],
    {
        let ino = r.unwrap().ino();
        assert forall|q: PathV| #[trigger] fin.files.contains_key(q) && fin.files[q] == ino implies false by {
            assert(old.inodes.contains_key(old.files[q]));
        }
    }

    /// tempfile::tempfile_in(dir), narrowed to the one argument type the crate uses: an anonymous (already unlinked)
    /// file created in `dir`.  PROTOCOL (C02): like named temporary files, only inside a `.kismet_temp`.
    #[verifier::external_body]
    pub fn tempfile_in(dir: Cow<Path>, Tracked(w): Tracked<&mut World>) -> (r: std::io::Result<std::fs::File>)
        requires
            old(w).inv(),
            old(w).is_temp_dir(cowv(dir)) && !old(w).under_ro(cowv(dir)),   // @L C02 C15 C16:temporary-files-live-in-kismet-temp
        ensures
            final(w).inv(),
            anon_created(*old(w), *final(w), r),
    {
        unimplemented!()
    }

    /// tempfile::tempfile(): an anonymous file in the system's temporary directory (outside every cache directory).
    #[verifier::external_body]
    pub fn tempfile(Tracked(w): Tracked<&mut World>) -> (r: std::io::Result<std::fs::File>)
        requires
            old(w).inv(),
        ensures
            final(w).inv(),
            anon_created(*old(w), *final(w), r),
    {
        unimplemented!()
    }
}

// ---- application callbacks ----------------------------------------------------------------------------
/// T1 for the `populate` callback of ensure / get_or_update: `populate(dst, old)` becomes
/// `call_populate(populate, dst, old, Ghost(key name), Tracked(w))`.  The contract is the ASSUMPTION made about every
/// populate function and the OBLIGATION on the code that calls it.  Obligation (C01 C13): it is handed a writable,
/// empty file positioned at 0 that no reader can see.  Assumption: it writes only that file (and may read anything);
/// on success what it wrote is, by definition, a value supplied for this key; any error it returns is counted in
/// `app_errors` and leaves the file in an arbitrary state.
#[verifier::external_body]
pub fn call_populate<P: FnOnce(&mut std::fs::File, Option<std::fs::File>) -> ::std::io::Result<()>>(
    populate: P,
    dst: &mut std::fs::File,
    old_file: Option<std::fs::File>,
    Ghost(name): Ghost<Seq<u8>>,
    Tracked(w): Tracked<&mut World>,
) -> (r: ::std::io::Result<()>)
    requires
        old(w).inv(),
        old(w).inodes.contains_key(old(dst).ino()),
        old(dst).can_write(),
        old(w).invisible(old(dst).ino()),   // @L C01 C03 C19:only-a-file-no-reader-can-see-is-ever-written
        old(w).inodes[old(dst).ino()].content.len() == 0 && old(dst).offset() == 0,   // @L C01 C13:populate-starts-from-an-empty-file
    ensures
        final(w).inv(),
        final(w).kept(*old(w)) && final(w).listed == old(w).listed && final(w).published == old(w).published && final(w).owned == old(w).owned,
        final(w).opens == old(w).opens && final(w).steps == old(w).steps && final(w).hard_faults == old(w).hard_faults,
        final(w).files == old(w).files && final(w).dirs == old(w).dirs,
        final(dst).ino() == old(dst).ino() && final(dst).can_write() == old(dst).can_write(),
        forall|i: InodeId| #[trigger] final(w).inodes.contains_key(i) <==> old(w).inodes.contains_key(i),
        forall|i: InodeId| i != old(dst).ino() && old(w).inodes.contains_key(i) ==> #[trigger] final(w).inodes[i] == (Inode { atime: final(w).inodes[i].atime, ..old(w).inodes[i] }),
        final(w).inodes[old(dst).ino()] == (Inode {
            content: final(w).inodes[old(dst).ino()].content,
            mtime: trunc(final(w).now, old(w).gran),
            atime: final(w).inodes[old(dst).ino()].atime,
            synced: false,
            ..old(w).inodes[old(dst).ino()]
        }),
        match r {
            Ok(()) => final(w).supplied == old(w).supplied.insert((name, final(w).inodes[old(dst).ino()].content)) && final(w).app_errors == old(w).app_errors && final(w).app_not_found == old(w).app_not_found,
            Err(e) => final(w).supplied == old(w).supplied && final(w).app_errors == old(w).app_errors + 1 && final(w).app_not_found == old(w).app_not_found + if err_kind(e)
                == ::std::io::ErrorKind::NotFound { 1nat } else { 0nat },
        },
{
    unimplemented!()
}

// ---- the one documented panic -----------------------------------------------------------------------------
/// T2: `<flush result>.expect("auto_sync failed, and failure semantics are unclear for fsync")` in Cache::maybe_sync_path
/// is the crate's one documented panic (a failed flush of a caller-supplied path).  The `.expect(<that literal>)` is
/// rebound to this method, which returns only if the result is Ok (otherwise the process panics, as documented).
pub trait DocumentedPanic<T>: Sized {
    spec fn dp_ok(&self) -> bool;

    spec fn dp_val(&self) -> T;

    fn expect_or_documented_panic(self, msg: &str) -> (r: T)
        ensures
            self.dp_ok(),
            r == self.dp_val(),
    ;
}

impl<T> DocumentedPanic<T> for ::std::io::Result<T> {
    open spec fn dp_ok(&self) -> bool {
        self is Ok
    }

    open spec fn dp_val(&self) -> T {
        self->Ok_0
    }

    #[verifier::external_body]
    fn expect_or_documented_panic(self, msg: &str) -> (r: T) {
        unimplemented!()
    }
}
