// ---------------------------------------------------------------------------------------------
// Environment of readonly.rs / stack.rs: file offsets, seek, consistency checkers.
// ---------------------------------------------------------------------------------------------

/// Assumptions about a consistency checker (C14): it may be called on any two files; it only reads them
/// (the handles still denote the same inodes afterwards, and stay read-only handles) and its verdict is a
/// function of the two files: `accepts(c, a, b)`.
pub uninterp spec fn accepts<C>(c: C, a: InodeId, b: InodeId) -> bool;

#[verifier::prophetic]
pub open spec fn reads_only<C: Fn(&mut std::fs::File, &mut std::fs::File) -> ::std::io::Result<()>>(c: C) -> bool {
    &&& forall|x: &mut std::fs::File, y: &mut std::fs::File| #[trigger] call_requires(c, (x, y))
    &&& forall|x: &mut std::fs::File, y: &mut std::fs::File, ret: ::std::io::Result<()>|
        #[trigger] call_ensures(c, (x, y), ret) ==> {
            &&& final(x).ino() == x.ino() && final(y).ino() == y.ino()
            &&& final(x).can_write() == x.can_write() && final(y).can_write() == y.can_write()
            &&& ret.is_ok() == accepts(c, x.ino(), y.ino())
        }
}

/// T7: stand-in for `type ConsistencyChecker = Arc<dyn Fn(&mut File, &mut File) -> Result<()> + Sync + Send + ...>`
/// (Verus has no `dyn Fn`).  Call sites `checker(a, b)` become `checker.call(a, b)`.  The contract of `call` is the
/// ASSUMPTION made about every checker: it only reads its two files (the handles keep denoting the same inodes and
/// stay read-only handles), and its verdict is a function of the two files.
#[verifier::external_body]
pub struct ConsistencyChecker {
    x: u8,
}

pub uninterp spec fn checker_accepts(c: ConsistencyChecker, a: InodeId, b: InodeId) -> bool;

impl ConsistencyChecker {
    #[verifier::external_body]
    pub fn call(&self, a: &mut std::fs::File, b: &mut std::fs::File) -> (r: ::std::io::Result<()>)
        ensures
            final(a).ino() == old(a).ino() && final(b).ino() == old(b).ino(),
            final(a).can_write() == old(a).can_write() && final(b).can_write() == old(b).can_write(),
            r.is_ok() == checker_accepts(*self, old(a).ino(), old(b).ino()),
    {
        unimplemented!()
    }
}

impl Clone for ConsistencyChecker {
    #[verifier::external_body]
    fn clone(&self) -> (r: Self)
        ensures
            r == *self,
    {
        unimplemented!()
    }
}

// ---- tempfile ------------------------------------------------------------------------------------
pub mod tempfile {
    use super::*;

    /// A named temporary file: a fresh, private, writable, empty, not yet flushed regular file.
    #[verifier::external_body]
    pub struct NamedTempFile {
        x: u8,
    }

    /// The path of a former NamedTempFile whose descriptor has been closed (deleted on drop).
    #[verifier::external_body]
    pub struct TempPath {
        x: u8,
    }

    impl TempPath {
        pub uninterp spec fn pathv(&self) -> PathV;
    }

    impl ::std::ops::Deref for TempPath {
        type Target = Path;

        #[verifier::external_body]
        fn deref(&self) -> (r: &Path)
            ensures
                pv(r) == self.pathv(),
        {
            unimplemented!()
        }
    }

    impl NamedTempFile {
        pub uninterp spec fn pathv(&self) -> PathV;

        pub uninterp spec fn ino(&self) -> InodeId;

        /// mkstemp in `dir` (narrowed to the one argument type the crate uses).  PROTOCOL (C02): temporary files
        /// are only ever created inside the `.kismet_temp` subdirectory of a configured cache directory.
        #[verifier::external_body]
        pub fn new_in(dir: Cow<Path>, Tracked(w): Tracked<&mut World>) -> (r: std::io::Result<NamedTempFile>)
            requires
                old(w).inv(),
                old(w).is_temp_dir(cowv(dir)) && !old(w).under_ro(cowv(dir)),   // @L C02 C15 C16:temporary-files-live-in-kismet-temp
            ensures
                final(w).inv(),
                final(w).kept(*old(w)) && final(w).steps == old(w).steps + 1 && final(w).opens == old(w).opens + 1,
                final(w).now == old(w).now && final(w).listed == old(w).listed && final(w).published == old(w).published && final(w).supplied == old(w).supplied,
                final(w).dirs == old(w).dirs,
                match r {
                    Ok(t) => {
                        &&& final(w).hard_faults == old(w).hard_faults
                        &&& t.pathv().len() > 0 && parent(t.pathv()) == cowv(dir) && single_component(base_name(t.pathv()))
                        &&& !old(w).files.contains_key(t.pathv()) && !old(w).inodes.contains_key(t.ino())
                        &&& final(w).files == old(w).files.insert(t.pathv(), t.ino())
                        &&& final(w).inodes == old(w).inodes.insert(
                            t.ino(),
                            Inode { content: Seq::<u8>::empty(), writable: true, mode: 0o600, mtime: trunc(old(w).now, old(w).gran), atime: trunc(old(w).now, old(w).gran), synced: false },
                        )
                        &&& final(w).owned == old(w).owned.insert(t.pathv())
                    },
                    Err(e) => final(w).same_fs(*old(w)) && final(w).owned == old(w).owned && final(w).hard_faults == old(w).hard_faults + 1,
                },
        {
            unimplemented!()
        }

        #[verifier::external_body]
        pub fn as_file(&self) -> (r: &std::fs::File)
            ensures
                r.ino() == self.ino(),
                r.can_write(),
        {
            unimplemented!()
        }

        #[verifier::external_body]
        pub fn into_parts(self) -> (r: (std::fs::File, TempPath))
            ensures
                r.0.ino() == self.ino(),
                r.0.can_write(),
                r.1.pathv() == self.pathv(),
        {
            unimplemented!()
        }
    }
}
