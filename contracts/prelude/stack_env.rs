// ---------------------------------------------------------------------------------------------
// Environment of readonly.rs / stack.rs: file offsets, seek, consistency checkers.
// ---------------------------------------------------------------------------------------------

/// Assumptions about a consistency checker (C14): it may be called on any two files; it only reads them
/// (the handles still denote the same inodes afterwards, and stay read-only handles) and its verdict is a
/// function of the two files: `accepts(c, a, b)`.
pub uninterp spec fn accepts<C>(c: C, a: InodeId, b: InodeId) -> bool;

#[verifier::prophetic]
pub open spec fn reads_only<C: Fn(&mut std::fs::File, &mut std::fs::File) -> ::std::io::Result<()>>(c: C) -> bool {
    &&& forall|x: &mut std::fs::File, y: &mut std::fs::File| #[trigger] call_requires(c, (x, y))
    &&& forall|x: &mut std::fs::File, y: &mut std::fs::File, ret: ::std::io::Result<()>|
        #[trigger] call_ensures(c, (x, y), ret) ==> {
            &&& final(x).ino() == x.ino() && final(y).ino() == y.ino()
            &&& final(x).can_write() == x.can_write() && final(y).can_write() == y.can_write()
            &&& ret.is_ok() == accepts(c, x.ino(), y.ino())
        }
}

/// T7: stand-in for `type ConsistencyChecker = Arc<dyn Fn(&mut File, &mut File) -> Result<()> + Sync + Send + ...>`
/// (Verus has no `dyn Fn`).  Call sites `checker(a, b)` become `checker.call(a, b)`.  The contract of `call` is the
/// ASSUMPTION made about every checker: it only reads its two files (the handles keep denoting the same inodes and
/// stay read-only handles), and its verdict is a function of the two files.
#[verifier::external_body]
pub struct ConsistencyChecker {
    x: u8,
}

pub uninterp spec fn checker_accepts(c: ConsistencyChecker, a: InodeId, b: InodeId) -> bool;

impl ConsistencyChecker {
    #[verifier::external_body]
    pub fn call(&self, a: &mut std::fs::File, b: &mut std::fs::File) -> (r: ::std::io::Result<()>)
        ensures
            final(a).ino() == old(a).ino() && final(b).ino() == old(b).ino(),
            final(a).can_write() == old(a).can_write() && final(b).can_write() == old(b).can_write(),
            r.is_ok() == checker_accepts(*self, old(a).ino(), old(b).ino()),
    {
        unimplemented!()
    }
}

impl Clone for ConsistencyChecker {
    #[verifier::external_body]
    fn clone(&self) -> (r: Self)
        ensures
            r == *self,
    {
        unimplemented!()
    }
}
