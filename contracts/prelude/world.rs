// =============================================================================================
// Ghost filesystem World (DESIGN section 4.1).  Everything the crate does not own is behind an
// explicit stub (vfs.rs) whose postcondition is its POSIX effect on this World.
// =============================================================================================
pub type PathV = Seq<Seq<u8>>;   // resolved component list
pub type InodeId = nat;

pub ghost struct Inode {
    pub content: Seq<u8>,
    pub writable: bool,      // any write permission bit set
    pub mode: int,           // permission bits as last set by chmod/fchmod (or creation)
    pub mtime: int,          // ns since epoch, as stored (already truncated to the fs granularity)
    pub atime: int,
    pub synced: bool,        // contents flushed to stable storage since the last write
    pub flush_failed: bool,  // an fsync on this file has failed: its contents may be lost even if a later fsync "succeeds" (sticky)
}

pub ghost struct World {
    // ---- filesystem ----
    pub files: Map<PathV, InodeId>,    // links to regular files
    pub dirs: Set<PathV>,              // directories
    pub inodes: Map<InodeId, Inode>,
    // ---- this participant ----
    pub owned: Set<PathV>,             // paths private to this participant (its temporary files)
    pub supplied: Set<(Seq<u8>, Seq<u8>)>,   // (key name, value bytes) pairs that writers have supplied
    pub counter: u64,                  // thread-local trigger countdown
    // ---- configuration of the operation being verified ----
    pub cache_dirs: Set<PathV>,        // directories of read-write caches (plain dir or shard dir)
    pub ro_roots: Set<PathV>,          // roots handed to read-only caches
    pub must_sync: bool,               // Cache::auto_sync for the current operation
    // ---- environment ----
    pub solo: bool,                    // no other participant is active
    pub gran: int,                     // timestamp granularity of the filesystem, ns
    pub now: int,                      // last clock reading, ns (monotone)
    // ---- observation ----
    pub steps: nat,                    // filesystem calls issued by us
    pub opens: nat,                    // open(2)/opendir attempts issued by us
    pub hard_faults: nat,              // calls that failed for a reason the state does not explain
    pub app_errors: nat,               // errors reported by application callbacks (populate)
    pub app_not_found: nat,            // ... of which ErrorKind::NotFound ("nothing to compare with")
    pub maintained: nat,               // number of completed prune runs (for C10 ordering)
    pub published: nat,                // number of publish steps (rename/link onto an entry)
    pub listed: nat,                   // directory items returned to us by readdir so far
    pub pub_listed: nat,               // value of `listed` at our last successful publish step (C10: no scan after the insertion)
}

pub open spec fn ns_per_sec() -> int { 1_000_000_000 }

/// Timestamp truncation to the filesystem granularity.
pub open spec fn trunc(t: int, gran: int) -> int {
    t - (t % gran)
}

pub proof fn lemma_trunc(t: int, gran: int)
    requires
        gran >= 1,
    ensures
        t - gran < trunc(t, gran) <= t,
        trunc(trunc(t, gran), gran) == trunc(t, gran),
        trunc(t, gran) % gran == 0,
{
    vstd::arithmetic::div_mod::lemma_fundamental_div_mod(t, gran);
    vstd::arithmetic::div_mod::lemma_mod_bound(t, gran);
    vstd::arithmetic::div_mod::lemma_mod_multiples_basic(t / gran, gran);
    assert(gran * (t / gran) == (t / gran) * gran) by (nonlinear_arith);
}

pub proof fn lemma_trunc_monotone(a: int, b: int, gran: int)
    requires
        gran >= 1,
        a <= b,
    ensures
        trunc(a, gran) <= trunc(b, gran),
{
    vstd::arithmetic::div_mod::lemma_fundamental_div_mod(a, gran);
    vstd::arithmetic::div_mod::lemma_fundamental_div_mod(b, gran);
    vstd::arithmetic::div_mod::lemma_div_is_ordered(a, b, gran);
    let qa = a / gran;
    let qb = b / gran;
    assert(gran * qa <= gran * qb) by (nonlinear_arith)
        requires
            gran >= 1,
            qa <= qb,
    ;
}

// ---- path algebra ------------------------------------------------------------------------
pub open spec fn child(dir: PathV, name: Seq<u8>) -> PathV {
    dir.push(name)
}

pub open spec fn parent(p: PathV) -> PathV {
    p.drop_last()
}

pub open spec fn base_name(p: PathV) -> Seq<u8> {
    p.last()
}

pub proof fn lemma_child(dir: PathV, n: Seq<u8>)
    ensures
        child(dir, n).len() > 0,
        parent(child(dir, n)) == dir,
        base_name(child(dir, n)) == n,
{
    assert(dir.push(n).drop_last() =~= dir);
}

/// A name that denotes exactly one directory entry: non-empty, no '/', not "." or "..".
/// (A name with an embedded NUL is a single component too; every system call rejects it.)
pub open spec fn single_component(n: Seq<u8>) -> bool {
    &&& n.len() > 0
    &&& forall|i: int| 0 <= i < n.len() ==> n[i] != 0x2f
    &&& n != seq![0x2eu8]
    &&& n != seq![0x2eu8, 0x2eu8]
}

/// A valid cache key: a single component that does not start with '.', '/' or '\'.
pub open spec fn valid_key(n: Seq<u8>) -> bool {
    &&& single_component(n)
    &&& n[0] != 0x2e
    &&& n[0] != 0x5c
}

/// The first-byte rule the documentation states for keys.
pub open spec fn first_byte_ok(n: Seq<u8>) -> bool {
    n.len() > 0 && n[0] != 0x2e && n[0] != 0x2f && n[0] != 0x5c
}

pub proof fn lemma_valid_key(n: Seq<u8>)
    requires
        first_byte_ok(n),
        !n.contains(0x2fu8),
    ensures
        valid_key(n),
{
    assert forall|i: int| 0 <= i < n.len() implies n[i] != 0x2f by {
        if n[i] == 0x2f {
            assert(n.contains(0x2fu8));
        }
    }
    assert(n != seq![0x2eu8]) by {
        if n == seq![0x2eu8] {
            assert(n[0] == 0x2e);
        }
    }
    assert(n != seq![0x2eu8, 0x2eu8]) by {
        if n == seq![0x2eu8, 0x2eu8] {
            assert(n[0] == 0x2e);
        }
    }
}

pub open spec fn temp_name() -> Seq<u8> {
    // ".kismet_temp"
    seq![0x2eu8, 0x6b, 0x69, 0x73, 0x6d, 0x65, 0x74, 0x5f, 0x74, 0x65, 0x6d, 0x70]
}

/// The bit-vector facts that the stand-in `PermissionsExt::mode` states about the number it returns.
pub proof fn lemma_masks_clear_write_bits(r: u32)
    ensures
        (r & !0o222u32) & 0o222 == 0,
        (r & 0o555u32) & 0o222 == 0,
        (r & 0o444u32) & 0o222 == 0,
{
    assert((r & !0o222u32) & 0o222 == 0) by (bit_vector);
    assert((r & 0o555u32) & 0o222 == 0) by (bit_vector);
    assert((r & 0o444u32) & 0o222 == 0) by (bit_vector);
}

/// A prefix of `dir/name` is a prefix of `dir`, or is `dir/name` itself.
pub proof fn lemma_prefix_of_child(d: PathV, dir: PathV, name: Seq<u8>)
    requires
        d.is_prefix_of(child(dir, name)),
    ensures
        d.is_prefix_of(dir) || d == child(dir, name),
{
    let c = child(dir, name);
    if d.len() == c.len() {
        assert(d =~= c);
    } else {
        assert(d.len() <= dir.len());
        assert(d =~= dir.subrange(0, d.len() as int)) by {
            assert forall|i: int| 0 <= i < d.len() implies d[i] == dir[i] by {
                assert(d[i] == c.subrange(0, d.len() as int)[i]);
            }
        }
    }
}

pub proof fn lemma_path_split_w(p: PathV)
    requires
        p.len() > 0,
    ensures
        p == child(parent(p), base_name(p)),
{
    assert(p =~= p.drop_last().push(p.last()));
}

pub proof fn lemma_atime_only_trans(a: World, b: World, c: World)
    requires
        b.atime_only(a),
        c.atime_only(b),
    ensures
        c.atime_only(a),
{
}

/// C01 C03 C19: no file's bytes change (inodes are never forgotten by the model, so this covers unlinked files too).
pub open spec fn bytes_kept(old: World, fin: World) -> bool {
    forall|i: InodeId| #[trigger] old.inodes.contains_key(i) ==> fin.inodes.contains_key(i) && fin.inodes[i].content == old.inodes[i].content
}

pub open spec fn under_ro_of(ro_roots: Set<PathV>, p: PathV) -> bool {
    exists|r: PathV| #[trigger] ro_roots.contains(r) && r.is_prefix_of(p)
}

/// C01 for one directory: the file bound to a valid key name in a configured directory holds bytes supplied for that key.
pub proof fn lemma_entry_supplied(w: World, base: PathV, name: Seq<u8>)
    requires
        w.valid(),
        valid_key(name),
        w.configured_dir(base),
        w.files.contains_key(child(base, name)),
    ensures
        w.supplied.contains((name, w.inode_at(child(base, name)).content)),
{
    lemma_child(base, name);
    let p = child(base, name);
    if w.cache_dirs.contains(base) {
        assert(w.is_entry(p));
    } else {
        assert(w.is_ro_entry(p));
    }
}

/// What a directory listing looks like (assumption about readdir): readable items carry the name
/// of a distinct existing child; `None` stands for an item the OS failed to return.
pub open spec fn listing_of(l: Seq<Option<Seq<u8>>>, w: World, dir: PathV) -> bool {
    &&& forall|i: int| 0 <= i < l.len() && l[i].is_some() ==> single_component(#[trigger] l[i].unwrap()) && (w.files.contains_key(
        child(dir, l[i].unwrap()),
    ) || w.dirs.contains(child(dir, l[i].unwrap())))
    &&& forall|i: int, j: int| 0 <= i < j < l.len() && l[i].is_some() && l[j].is_some() ==> #[trigger] l[i].unwrap() != #[trigger] l[j].unwrap()
    &&& (forall|i: int| 0 <= i < l.len() ==> (#[trigger] l[i]).is_some()) ==> forall|n: Seq<u8>|
        #[trigger] w.files.contains_key(child(dir, n)) ==> l.contains(Some(n))
}

impl World {
    /// p names a cache entry: a valid key directly inside a configured read-write cache directory.
    pub open spec fn is_entry(self, p: PathV) -> bool {
        p.len() > 0 && self.cache_dirs.contains(parent(p)) && valid_key(base_name(p))
    }

    /// p is directly inside the `.kismet_temp` subdirectory of a configured cache directory.
    pub open spec fn is_temp_child(self, p: PathV) -> bool {
        p.len() > 1 && base_name(parent(p)) == temp_name() && self.cache_dirs.contains(parent(parent(p)))
    }

    /// p is directly inside a configured cache directory and outside the dot namespace: the only
    /// names maintenance may ever evict (C17).  Every entry path is of this form.
    pub open spec fn in_cache_namespace(self, p: PathV) -> bool {
        p.len() > 0 && self.cache_dirs.contains(parent(p)) && single_component(base_name(p)) && base_name(p)[0] != 0x2e
    }

    /// The configuration part of the World only (what `rw` predicates of cache handles may depend on).
    pub open spec fn cfg(self) -> (Set<PathV>, Set<PathV>) {
        (self.cache_dirs, self.ro_roots)
    }

    /// d is the `.kismet_temp` subdirectory of a configured read-write cache directory.
    pub open spec fn is_temp_dir(self, d: PathV) -> bool {
        d.len() > 0 && base_name(d) == temp_name() && self.cache_dirs.contains(parent(d))
    }

    pub open spec fn under_ro(self, p: PathV) -> bool {
        under_ro_of(self.ro_roots, p)
    }

    pub open spec fn exists_file(self, p: PathV) -> bool {
        self.files.contains_key(p)
    }

    pub open spec fn inode_at(self, p: PathV) -> Inode {
        self.inodes[self.files[p]]
    }

    /// The accessed mark Kismet reads off the times.
    pub open spec fn accessed(self, p: PathV) -> bool {
        self.inode_at(p).atime >= self.inode_at(p).mtime
    }

    /// Environment well-formedness (assumptions about the filesystem, not about the crate):
    /// every link has an inode, granularity within the property's range, nothing future-dated,
    /// no regular file and directory share a path.
    pub open spec fn env_ok(self) -> bool {
        &&& 1 <= self.gran <= 2 * ns_per_sec()
        &&& self.now >= 0
        &&& forall|p: PathV| #[trigger] self.files.contains_key(p) ==> self.inodes.contains_key(self.files[p])
        &&& forall|p: PathV| #[trigger] self.files.contains_key(p) ==> !self.dirs.contains(p)
        &&& forall|p: PathV| #[trigger] self.dirs.contains(p) ==> !self.in_cache_namespace(p)   // no directory is named like a key
        &&& forall|d: PathV| #[trigger] self.cache_dirs.contains(d) && d.len() > 0 ==> base_name(d) != temp_name()   // a `.kismet_temp` is never itself a cache directory
        &&& forall|c: PathV, q: PathV| #[trigger] self.cache_dirs.contains(c) && #[trigger] q.is_prefix_of(c) ==> !self.in_cache_namespace(q)   // cache directories do not nest inside one another's key namespace
        &&& forall|i: InodeId| #[trigger] self.inodes.contains_key(i) ==> self.inodes[i].mtime <= trunc(self.now, self.gran)
        &&& forall|i: InodeId| #[trigger] self.inodes.contains_key(i) ==> self.inodes[i].mtime == trunc(self.inodes[i].mtime, self.gran)
    }

    /// The crash/reader invariant (C01 C02 C03 C19): whatever is visible under a key name is a
    /// read-only file whose bytes are a value some writer supplied for that key.
    pub open spec fn valid(self) -> bool {
        &&& forall|p: PathV| #[trigger] self.files.contains_key(p) && self.is_entry(p) ==> {
            &&& !self.inode_at(p).writable
            &&& self.supplied.contains((base_name(p), self.inode_at(p).content))
        }
        &&& self.ro_valid()
    }

    /// p is named like a cache entry directly inside a directory under a read-only root.
    pub open spec fn is_ro_entry(self, p: PathV) -> bool {
        p.len() > 0 && self.under_ro(parent(p)) && valid_key(base_name(p))
    }

    /// ENVIRONMENT ASSUMPTION about read-only roots (C01): they are Kismet cache directories populated by other
    /// writers, so whatever is visible there under a key name holds bytes some writer supplied for that key.  (We
    /// never mutate anything under a read-only root: every mutating stub demands `!under_ro`.)
    pub open spec fn ro_valid(self) -> bool {
        forall|p: PathV| #[trigger] self.files.contains_key(p) && self.is_ro_entry(p) ==> self.supplied.contains((base_name(p), self.inode_at(p).content))
    }

    /// No name a reader could look up binds `ino`: it may be written without anyone seeing partial content.
    pub open spec fn invisible(self, ino: InodeId) -> bool {
        forall|q: PathV| #[trigger] self.files.contains_key(q) && self.files[q] == ino ==> !self.in_cache_namespace(q) && !self.is_ro_entry(q)
    }

    /// PROTOCOL for creating, truncating or opening a file for writing BY NAME: neither the name nor any other
    /// name of the same file is one a lookup resolves.
    pub open spec fn may_write_open(self, p: PathV) -> bool {
        &&& !self.in_cache_namespace(p) && !self.is_entry(p) && !self.is_ro_entry(p) && !self.under_ro(p)
        &&& !self.dirs.contains(p)
        &&& self.files.contains_key(p) ==> forall|q: PathV| #[trigger] self.files.contains_key(q) && self.files[q] == self.files[p] ==> !self.in_cache_namespace(q) && !self.is_entry(q)
            && !self.is_ro_entry(q)
    }

    /// Effect of a successful open-for-writing of `p` (O_CREAT / O_TRUNC / O_APPEND / plain O_WRONLY alike): `p` names
    /// `ino` afterwards; an existing file keeps everything but possibly its bytes and its mtime; a new one is empty.
    pub open spec fn write_opened(self, old: World, p: PathV, ino: InodeId) -> bool {
        &&& self.files.contains_key(p) && self.files[p] == ino
        &&& self.dirs == old.dirs
        &&& if old.files.contains_key(p) {
            &&& ino == old.files[p]
            &&& self.files == old.files
            &&& self.inodes == old.inodes.insert(ino, Inode { content: self.inodes[ino].content, mtime: self.inodes[ino].mtime, synced: false, ..old.inodes[ino] })
            &&& (self.inodes[ino].mtime == old.inodes[ino].mtime || self.inodes[ino].mtime == trunc(old.now, old.gran))
        } else {
            &&& !old.inodes.contains_key(ino)
            &&& self.files == old.files.insert(p, ino)
            &&& self.inodes == old.inodes.insert(
                ino,
                Inode {
                    content: Seq::<u8>::empty(),
                    writable: true,
                    mode: self.inodes[ino].mode,
                    mtime: trunc(old.now, old.gran),
                    atime: trunc(old.now, old.gran),
                    synced: false,
                    flush_failed: false,
                },
            )
        }
    }

    /// No key-named file under a read-only root is a link to `ino` (so re-moding `ino` cannot touch a read-only cache).
    pub open spec fn not_ro_linked(self, ino: InodeId) -> bool {
        forall|q: PathV| #[trigger] self.files.contains_key(q) && self.files[q] == ino ==> !self.is_ro_entry(q)
    }

    /// The directory `base` is configured: a read-write cache directory or a directory under a read-only root.
    pub open spec fn configured_dir(self, base: PathV) -> bool {
        self.cache_dirs.contains(base) || self.under_ro(base)
    }

    /// Every link to p's inode is private to us (so changing the inode cannot be seen by anyone).
    pub open spec fn private_inode(self, p: PathV) -> bool {
        self.owned.contains(p) && !self.in_cache_namespace(p) && forall|q: PathV|
            #[trigger] self.files.contains_key(q) && self.files.contains_key(p) && self.files[q] == self.files[p] ==> self.owned.contains(q)
                && !self.in_cache_namespace(q)
    }

    /// `solo`: in this version every contract is stated for the participant running alone between
    /// two of its own filesystem calls (see DESIGN: interference is not modelled in the stubs).
    pub open spec fn inv(self) -> bool {
        self.valid() && self.env_ok() && self.solo
    }

    /// What a writer hands to a write cache (C01 C03): a private path, never itself a cache entry, whose file (if it
    /// exists) holds the bytes supplied for the key `name`, is flushed when `need_sync`, and is not yet visible anywhere.
    pub open spec fn value_ok(self, value: PathV, name: Seq<u8>, need_sync: bool) -> bool {
        &&& self.owned.contains(value) && !self.in_cache_namespace(value) && !self.under_ro(value)
        &&& self.files.contains_key(value) ==> {
            &&& self.supplied.contains((name, self.inode_at(value).content))
            &&& (need_sync ==> self.inode_at(value).synced)
            &&& !self.inode_at(value).flush_failed
            &&& forall|q: PathV| #[trigger] self.files.contains_key(q) && self.files[q] == self.files[value] ==> !self.in_cache_namespace(q)
        }
    }

    /// The publish guarantee: `from` may be renamed/linked onto the entry path `to`.
    pub open spec fn publishable(self, from: PathV, to: PathV) -> bool {
        &&& self.owned.contains(from)
        &&& self.files.contains_key(from) ==> {
            &&& !self.inode_at(from).writable
            &&& self.inode_at(from).atime < self.inode_at(from).mtime
            &&& (self.must_sync ==> self.inode_at(from).synced && !self.inode_at(from).flush_failed)
            &&& self.supplied.contains((base_name(to), self.inode_at(from).content))
        }
    }

    /// No mutating call may target anything under a read-only root (C15), and every mutating call
    /// targets a configured cache directory, its temp subdirectory, or a private file (C16).
    pub open spec fn may_mutate(self, p: PathV) -> bool {
        &&& !self.under_ro(p)
        &&& (self.owned.contains(p) || self.in_cache_namespace(p) || self.is_temp_child(p))
    }

    pub open spec fn may_mkdir(self, p: PathV) -> bool {
        &&& !self.under_ro(p)
        &&& (self.cache_dirs.contains(p) || (p.len() > 0 && base_name(p) == temp_name() && self.cache_dirs.contains(parent(p))))
    }

    /// Bookkeeping common to every filesystem call.
    pub open spec fn stepped(self, old: World) -> bool {
        &&& self.steps == old.steps + 1
        &&& self.kept(old)
    }

    /// What no filesystem operation of ours changes (configuration), or only changes monotonically.
    pub open spec fn kept(self, old: World) -> bool {
        self.kept_nc(old) && self.counter == old.counter
    }

    /// `kept` for operations that also observe the periodic trigger (the countdown changes).
    pub open spec fn kept_nc(self, old: World) -> bool {
        &&& old.owned.subset_of(self.owned)
        &&& old.supplied.subset_of(self.supplied)
        &&& self.cache_dirs == old.cache_dirs
        &&& self.ro_roots == old.ro_roots
        &&& self.must_sync == old.must_sync
        &&& self.solo == old.solo
        &&& self.gran == old.gran
        &&& self.now >= old.now
        &&& self.hard_faults >= old.hard_faults
        &&& self.app_errors >= old.app_errors
        &&& self.app_not_found >= old.app_not_found
        &&& self.steps >= old.steps
        &&& self.opens >= old.opens
        &&& self.published >= old.published
        &&& self.maintained >= old.maintained
        &&& self.listed >= old.listed
        &&& (self.pub_listed == old.pub_listed || self.published > old.published)
    }

    /// Only the inode `ino` may differ, and only as described by `f`.
    pub open spec fn only_inode_changed(self, old: World, ino: InodeId, new_inode: Inode) -> bool {
        &&& self.files == old.files
        &&& self.dirs == old.dirs
        &&& self.inodes =~= old.inodes.insert(ino, new_inode)
    }

    /// C15: what a lookup may change: no link, no directory, and of each inode at most the access time.
    pub open spec fn atime_only(self, old: World) -> bool {
        &&& self.files == old.files
        &&& self.dirs == old.dirs
        &&& forall|i: InodeId| #[trigger] old.inodes.contains_key(i) ==> self.inodes.contains_key(i) && self.inodes[i] == (Inode { atime: self.inodes[i].atime, ..old.inodes[i] })
    }

    pub open spec fn same_fs(self, old: World) -> bool {
        &&& self.files == old.files
        &&& self.dirs == old.dirs
        &&& self.inodes == old.inodes
    }
}
