// Minimal ghost World for units that only touch the thread-local trigger countdown (U2).
// The filesystem units use world.rs, which has the same `counter` field.
pub ghost struct World {
    pub counter: u64,
}
