// ---------------------------------------------------------------------------------------------
// Environment of sharded.rs.
// ---------------------------------------------------------------------------------------------
pub use ::std::sync::Arc;
pub use ::std::sync::atomic::AtomicU8;

/// Bytes of the directory name `format!(".kismet_{:04x}", i)` (a `format!` call is outside Verus' reach:
/// what is assumed about it is exactly the four clauses of `axiom_fmt_shard`; the name itself is
/// observed natively, bounded, in the thorough tier).
pub uninterp spec fn fmt_shard(i: usize) -> Seq<u8>;

#[verifier::external_body]
pub broadcast proof fn axiom_fmt_shard(i: usize)
    ensures
        single_component(#[trigger] fmt_shard(i)),
        fmt_shard(i)[0] == 0x2e,
        fmt_shard(i) != temp_name(),
        forall|j: usize| i != j ==> fmt_shard(i) != #[trigger] fmt_shard(j),
{
}

pub uninterp spec fn string_bytes_u(s: &String) -> Seq<u8>;

#[verifier::external_body]
pub broadcast proof fn axiom_asref_string(s: &String)
    ensures
        #[trigger] asref_bytes(s) == string_bytes_u(s),
{
}

pub assume_specification<T, A, F>[ ::std::vec::Vec::<T, A>::resize_with ](v: &mut ::std::vec::Vec<T, A>, n: usize, f: F) where
    A: ::std::alloc::Allocator,
    F: FnMut() -> T,

    ensures
        final(v)@.len() == n,
;

pub assume_specification<T, A>[ ::std::vec::Vec::<T, A>::into_boxed_slice ](v: ::std::vec::Vec<T, A>) -> (r: ::std::boxed::Box<[T], A>) where
    A: ::std::alloc::Allocator,

    ensures
        r@ == v@,
;

pub assume_specification<T: ?Sized, A: ::std::alloc::Allocator>[ <Arc<T, A> as From<::std::boxed::Box<T, A>>>::from ](v: ::std::boxed::Box<T, A>) -> (r: Arc<T, A>)
    ensures
        &*r == &*v,
;

pub broadcast group group_sharded {
    axiom_fmt_shard,
    axiom_asref_string,
}
