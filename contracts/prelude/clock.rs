// ---------------------------------------------------------------------------------------------
// The classical Second Chance ("clock") queue, written from the statement of C08:
//   pop the lowest-ranked entry; if accessed, clear its flag and requeue it, otherwise evict it;
//   stop when `must` entries have been evicted.
// Entries are abstract; a queue element carries the entry, its current flag and whether it has
// been requeued (reprieved) during this run.
// ---------------------------------------------------------------------------------------------
pub struct QE<T> {
    pub e: T,
    pub flag: bool,
    pub requeued: bool,
}

pub open spec fn flagged<T>(q: Seq<QE<T>>) -> nat
    decreases q.len(),
{
    if q.len() == 0 {
        0
    } else {
        flagged(q.drop_last()) + if q.last().flag { 1nat } else { 0nat }
    }
}

pub proof fn lemma_flagged_drop_first<T>(q: Seq<QE<T>>)
    requires
        q.len() > 0,
    ensures
        flagged(q) == flagged(q.drop_first()) + if q[0].flag { 1nat } else { 0nat },
    decreases q.len(),
{
    if q.len() == 1 {
        assert(q.drop_last().len() == 0);
        assert(q.drop_first().len() == 0);
        assert(flagged(q.drop_last()) == 0);
        assert(flagged(q.drop_first()) == 0);
    } else {
        lemma_flagged_drop_first(q.drop_last());
        assert(q.drop_last().drop_first() == q.drop_first().drop_last());
        assert(q.drop_first().last() == q.last());
        assert(q.drop_last()[0] == q[0]);
    }
}

/// (evicted entries in eviction order, final queue)
pub open spec fn clock<T>(q: Seq<QE<T>>, must: nat) -> (Seq<T>, Seq<QE<T>>)
    decreases must, flagged(q),
    via clock_decreases::<T>
{
    if must == 0 || q.len() == 0 {
        (Seq::<T>::empty(), q)
    } else if q[0].flag {
        clock(q.drop_first().push(QE { e: q[0].e, flag: false, requeued: true }), must)
    } else {
        let r = clock(q.drop_first(), (must - 1) as nat);
        (seq![q[0].e] + r.0, r.1)
    }
}

#[via_fn]
proof fn clock_decreases<T>(q: Seq<QE<T>>, must: nat) {
    if must != 0 && q.len() != 0 && q[0].flag {
        lemma_requeue_decreases_flagged(q);
    }
}

pub proof fn lemma_requeue_decreases_flagged<T>(q: Seq<QE<T>>)
    requires
        q.len() > 0,
        q[0].flag,
    ensures
        flagged(q.drop_first().push(QE { e: q[0].e, flag: false, requeued: true })) + 1 == flagged(q),
{
    let x = QE { e: q[0].e, flag: false, requeued: true };
    let q2 = q.drop_first().push(x);
    lemma_flagged_drop_first(q);
    assert(q2.drop_last() == q.drop_first());
    assert(q2.last() == x);
    assert(flagged(q2) == flagged(q.drop_first()));
}

/// The entries of the final queue that were reprieved during the run, in queue order.
pub open spec fn requeued_of<T>(q: Seq<QE<T>>) -> Seq<T>
    decreases q.len(),
{
    if q.len() == 0 {
        Seq::<T>::empty()
    } else if q.last().requeued {
        requeued_of(q.drop_last()).push(q.last().e)
    } else {
        requeued_of(q.drop_last())
    }
}

/// Entries of the final queue that were never popped.
pub open spec fn untouched_of<T>(q: Seq<QE<T>>) -> Seq<T>
    decreases q.len(),
{
    if q.len() == 0 {
        Seq::<T>::empty()
    } else if !q.last().requeued {
        untouched_of(q.drop_last()).push(q.last().e)
    } else {
        untouched_of(q.drop_last())
    }
}

/// A reprieved entry: flag cleared, tagged as requeued.
pub open spec fn cleared<T>(mb: Seq<T>) -> Seq<QE<T>> {
    mb.map(|i: int, e: T| QE { e: e, flag: false, requeued: true })
}

pub proof fn lemma_requeued_of_fresh_plus_cleared<T>(a: Seq<QE<T>>, mb: Seq<T>)
    requires
        forall|i: int| 0 <= i < a.len() ==> !a[i].requeued,
    ensures
        requeued_of(a + cleared(mb)) == mb,
        untouched_of(a + cleared(mb)) == a.map(|i: int, x: QE<T>| x.e),
    decreases mb.len(), a.len(),
{
    let q = a + cleared(mb);
    let am = a.map(|i: int, x: QE<T>| x.e);
    if mb.len() == 0 {
        assert(q == a);
        if a.len() == 0 {
            assert(am =~= Seq::<T>::empty());
        } else {
            lemma_requeued_of_fresh_plus_cleared(a.drop_last(), mb);
            assert(a.drop_last() + cleared(mb) == a.drop_last());
            assert(a.drop_last().map(|i: int, x: QE<T>| x.e).push(a.last().e) =~= am);
        }
    } else {
        lemma_requeued_of_fresh_plus_cleared(a, mb.drop_last());
        assert(q.drop_last() == a + cleared(mb.drop_last()));
        assert(q.last() == QE { e: mb.last(), flag: false, requeued: true });
        assert(mb.drop_last().push(mb.last()) == mb);
    }
}

/// With no flag set anywhere, the clock evicts a prefix.
pub proof fn lemma_clock_unflagged<T>(q: Seq<QE<T>>, k: nat)
    requires
        k <= q.len(),
        forall|i: int| 0 <= i < q.len() ==> !q[i].flag,
    ensures
        clock(q, k).0 == q.subrange(0, k as int).map(|i: int, x: QE<T>| x.e),
        clock(q, k).1 == q.subrange(k as int, q.len() as int),
    decreases k,
{
    if k == 0 {
        assert(q.subrange(0, 0).map(|i: int, x: QE<T>| x.e) =~= Seq::<T>::empty());
        assert(q.subrange(0, q.len() as int) == q);
    } else {
        let t = q.drop_first();
        lemma_clock_unflagged(t, (k - 1) as nat);
        assert(t.subrange(k - 1, t.len() as int) == q.subrange(k as int, q.len() as int));
        assert(seq![q[0].e] + t.subrange(0, k - 1).map(|i: int, x: QE<T>| x.e) =~= q.subrange(0, k as int).map(
            |i: int, x: QE<T>| x.e,
        ));
    }
}

/// Conservation: the clock neither invents, drops nor duplicates entries.
pub proof fn lemma_clock_conserves<T>(q: Seq<QE<T>>, must: nat)
    ensures
        clock(q, must).0.to_multiset().add(clock(q, must).1.map(|i: int, x: QE<T>| x.e).to_multiset()) == q.map(
            |i: int, x: QE<T>| x.e,
        ).to_multiset(),
        clock(q, must).0.len() + clock(q, must).1.len() == q.len(),
        clock(q, must).0.len() <= must,
        must <= q.len() ==> clock(q, must).0.len() == must,
    decreases must, flagged(q),
{
    broadcast use vstd::seq_lib::group_to_multiset_ensures;
    let ent = |i: int, x: QE<T>| x.e;
    if must == 0 || q.len() == 0 {
        assert(Seq::<T>::empty().to_multiset() =~= vstd::multiset::Multiset::<T>::empty());
        assert(Seq::<T>::empty().to_multiset().add(q.map(ent).to_multiset()) =~= q.map(ent).to_multiset());
    } else if q[0].flag {
        let x = QE { e: q[0].e, flag: false, requeued: true };
        let q2 = q.drop_first().push(x);
        lemma_requeue_decreases_flagged(q);
        lemma_clock_conserves(q2, must);
        assert(q2.map(ent) =~= q.drop_first().map(ent).push(q[0].e));
        assert(q.map(ent) =~= seq![q[0].e] + q.drop_first().map(ent));
        vstd::seq_lib::lemma_multiset_commutative(seq![q[0].e], q.drop_first().map(ent));
        assert(q.drop_first().map(ent).push(q[0].e) =~= q.drop_first().map(ent) + seq![q[0].e]);
        vstd::seq_lib::lemma_multiset_commutative(q.drop_first().map(ent), seq![q[0].e]);
    } else {
        let r = clock(q.drop_first(), (must - 1) as nat);
        lemma_clock_conserves(q.drop_first(), (must - 1) as nat);
        assert(q.map(ent) =~= seq![q[0].e] + q.drop_first().map(ent));
        vstd::seq_lib::lemma_multiset_commutative(seq![q[0].e], q.drop_first().map(ent));
        vstd::seq_lib::lemma_multiset_commutative(seq![q[0].e], r.0);
        assert(seq![q[0].e].to_multiset().add(r.0.to_multiset()).add(r.1.map(ent).to_multiset()) =~= seq![
            q[0].e,
        ].to_multiset().add(r.0.to_multiset().add(r.1.map(ent).to_multiset())));
    }
}

/// The initial queue for a rank-sorted sequence of entries with their access flags.
pub open spec fn init_queue<T>(p: Seq<T>, acc: spec_fn(T) -> bool) -> Seq<QE<T>> {
    p.map(|i: int, e: T| QE { e: e, flag: acc(e), requeued: false })
}

pub open spec fn sorted_by<T, K: core::cmp::Ord>(p: Seq<T>, key: spec_fn(T) -> K) -> bool {
    forall|i: int, j: int| 0 <= i < j < p.len() ==> ord_le(key(#[trigger] p[i]), key(#[trigger] p[j]))
}

/// C08 as a predicate: `(evict, move_back)` is the Second Chance plan for the collection `s` with
/// capacity `cap`.
pub open spec fn plan_is_second_chance<T, K: core::cmp::Ord>(
    s: Seq<T>,
    cap: nat,
    key: spec_fn(T) -> K,
    acc: spec_fn(T) -> bool,
    evict: Seq<T>,
    move_back: Seq<T>,
) -> bool {
    if s.len() <= cap {
        evict.len() == 0 && move_back.len() == 0
    } else {
        exists|p: Seq<T>|
            {
                &&& #[trigger] p.to_multiset() == s.to_multiset()
                &&& p.len() == s.len()
                &&& sorted_by(p, key)
                &&& evict == clock(init_queue(p, acc), (s.len() - cap) as nat).0
                &&& move_back == requeued_of(clock(init_queue(p, acc), (s.len() - cap) as nat).1)
            }
    }
}

/// Consequences of `plan_is_second_chance` that the statement of C08 spells out.
pub proof fn lemma_plan_facts<T, K: core::cmp::Ord>(
    s: Seq<T>,
    cap: nat,
    key: spec_fn(T) -> K,
    acc: spec_fn(T) -> bool,
    evict: Seq<T>,
    move_back: Seq<T>,
)
    requires
        plan_is_second_chance(s, cap, key, acc, evict, move_back),
    ensures
        evict.len() == if s.len() <= cap { 0 } else { s.len() - cap },
        evict.to_multiset().add(move_back.to_multiset()).subset_of(s.to_multiset()),
        evict.len() + move_back.len() <= s.len(),
{
    broadcast use vstd::seq_lib::group_to_multiset_ensures;
    if s.len() <= cap {
        assert(evict =~= Seq::<T>::empty());
        assert(move_back =~= Seq::<T>::empty());
        assert(evict.to_multiset().add(move_back.to_multiset()) =~= vstd::multiset::Multiset::<T>::empty());
    } else {
        let must = (s.len() - cap) as nat;
        let p = choose|p: Seq<T>|
            {
                &&& #[trigger] p.to_multiset() == s.to_multiset()
                &&& p.len() == s.len()
                &&& sorted_by(p, key)
                &&& evict == clock(init_queue(p, acc), must).0
                &&& move_back == requeued_of(clock(init_queue(p, acc), must).1)
            };
        let q = init_queue(p, acc);
        lemma_clock_conserves(q, must);
        let fin = clock(q, must).1;
        lemma_requeued_submultiset(fin);
        lemma_requeued_len(fin);
        let ent = |i: int, x: QE<T>| x.e;
        assert(q.map(ent) =~= p);
        assert forall|v: T| #[trigger] evict.to_multiset().add(move_back.to_multiset()).count(v) <= s.to_multiset().count(v) by {
            assert(move_back.to_multiset().count(v) <= fin.map(ent).to_multiset().count(v));
            assert(evict.to_multiset().add(fin.map(ent).to_multiset()).count(v) == q.map(ent).to_multiset().count(v));
        }
    }
}

pub proof fn lemma_requeued_len<T>(q: Seq<QE<T>>)
    ensures
        requeued_of(q).len() <= q.len(),
    decreases q.len(),
{
    if q.len() > 0 {
        lemma_requeued_len(q.drop_last());
    }
}

pub proof fn lemma_requeued_submultiset<T>(q: Seq<QE<T>>)
    ensures
        requeued_of(q).to_multiset().subset_of(q.map(|i: int, x: QE<T>| x.e).to_multiset()),
    decreases q.len(),
{
    broadcast use vstd::seq_lib::group_to_multiset_ensures;
    let ent = |i: int, x: QE<T>| x.e;
    if q.len() == 0 {
        assert(requeued_of(q).to_multiset() =~= vstd::multiset::Multiset::<T>::empty());
    } else {
        lemma_requeued_submultiset(q.drop_last());
        assert(q.map(ent) =~= q.drop_last().map(ent).push(q.last().e));
        assert forall|v: T| #[trigger] requeued_of(q).to_multiset().count(v) <= q.map(ent).to_multiset().count(v) by {
            assert(requeued_of(q.drop_last()).to_multiset().count(v) <= q.drop_last().map(ent).to_multiset().count(v));
        }
    }
}

// ---------------------------------------------------------------------------------------------
// Relating the single scan of `Update::new` to the clock: after `k` sorted entries have been
// classified into `ev` (evicted) and `mb` (reprieved), the clock on the initial queue equals
// `ev` followed by the clock on (unscanned entries ++ reprieved entries).
// ---------------------------------------------------------------------------------------------
pub open spec fn scan_state<T>(q0: Seq<QE<T>>, k: int, ev: Seq<T>, mb: Seq<T>, must: nat) -> bool {
    &&& 0 <= k <= q0.len()
    &&& ev.len() <= must
    &&& clock(q0, must).0 == ev + clock(q0.skip(k) + cleared(mb), (must - ev.len()) as nat).0
    &&& clock(q0, must).1 == clock(q0.skip(k) + cleared(mb), (must - ev.len()) as nat).1
}

pub proof fn lemma_scan_init<T>(q0: Seq<QE<T>>, must: nat)
    ensures
        scan_state(q0, 0, Seq::<T>::empty(), Seq::<T>::empty(), must),
{
    assert(q0.skip(0) + cleared(Seq::<T>::empty()) == q0);
    assert(Seq::<T>::empty() + clock(q0, must).0 == clock(q0, must).0);
}

pub proof fn lemma_scan_flagged<T>(q0: Seq<QE<T>>, k: int, ev: Seq<T>, mb: Seq<T>, must: nat)
    requires
        scan_state(q0, k, ev, mb, must),
        k < q0.len(),
        ev.len() < must,
        q0[k].flag,
    ensures
        scan_state(q0, k + 1, ev, mb.push(q0[k].e), must),
{
    let q = q0.skip(k) + cleared(mb);
    let x = QE { e: q0[k].e, flag: false, requeued: true };
    assert(q[0] == q0[k]);
    assert(q.drop_first().push(x) == q0.skip(k + 1) + cleared(mb.push(q0[k].e)));
}

pub proof fn lemma_scan_unflagged<T>(q0: Seq<QE<T>>, k: int, ev: Seq<T>, mb: Seq<T>, must: nat)
    requires
        scan_state(q0, k, ev, mb, must),
        k < q0.len(),
        ev.len() < must,
        !q0[k].flag,
    ensures
        scan_state(q0, k + 1, ev.push(q0[k].e), mb, must),
{
    let q = q0.skip(k) + cleared(mb);
    assert(q[0] == q0[k]);
    assert(q.drop_first() == q0.skip(k + 1) + cleared(mb));
    let r = clock(q.drop_first(), (must - ev.len() - 1) as nat);
    assert(ev + (seq![q0[k].e] + r.0) == ev.push(q0[k].e) + r.0);
}

/// Exit by `break`: the quota is met.
pub proof fn lemma_scan_done_quota<T>(q0: Seq<QE<T>>, k: int, ev: Seq<T>, mb: Seq<T>, must: nat)
    requires
        scan_state(q0, k, ev, mb, must),
        ev.len() == must,
        forall|i: int| 0 <= i < q0.len() ==> !q0[i].requeued,
    ensures
        clock(q0, must).0 == ev,
        requeued_of(clock(q0, must).1) == mb,
{
    assert(ev + Seq::<T>::empty() == ev);
    lemma_requeued_of_fresh_plus_cleared(q0.skip(k), mb);
}

/// Exit by exhaustion: every entry was classified; the rest of the quota is a prefix of `mb`.
pub proof fn lemma_scan_done_exhausted<T>(q0: Seq<QE<T>>, ev: Seq<T>, mb: Seq<T>, must: nat)
    requires
        scan_state(q0, q0.len() as int, ev, mb, must),
        ev.len() + mb.len() == q0.len(),
        must <= q0.len(),
    ensures
        must - ev.len() <= mb.len(),
        clock(q0, must).0 == ev + mb.subrange(0, must - ev.len()),
        requeued_of(clock(q0, must).1) == mb.subrange(must - ev.len(), mb.len() as int),
{
    let m = (must - ev.len()) as nat;
    let q = cleared(mb);
    assert(q0.skip(q0.len() as int) + cleared(mb) == q);
    lemma_clock_unflagged(q, m);
    assert(q.subrange(0, m as int).map(|i: int, x: QE<T>| x.e) == mb.subrange(0, m as int));
    let rest = mb.subrange(m as int, mb.len() as int);
    assert(q.subrange(m as int, q.len() as int) == cleared(rest));
    lemma_requeued_of_fresh_plus_cleared(Seq::<QE<T>>::empty(), rest);
    assert(Seq::<QE<T>>::empty() + cleared(rest) == cleared(rest));
}
