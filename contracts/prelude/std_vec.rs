// ---------------------------------------------------------------------------------------------
// Assumed contracts on std (trusted; listed in evidence).  `ord_le` is the total preorder that
// `K: Ord` induces; nothing about it is needed except that sorting sorts by it.
// ---------------------------------------------------------------------------------------------
/// The total preorder `K: Ord` induces (vstd's spec twin of `Ord::cmp`; for a type that does not
/// declare `obeys_cmp_spec` it is simply uninterpreted).
pub open spec fn ord_le<K: core::cmp::Ord>(a: K, b: K) -> bool {
    vstd::std_specs::cmp::OrdSpec::cmp_spec(&a, &b) != core::cmp::Ordering::Greater
}

/// The items an `IntoIterator` value yields, in order (uninterpreted; pinned down per type below).
pub uninterp spec fn iter_items<I: IntoIterator>(i: I) -> Seq<I::Item>;

pub uninterp spec fn range_lo<R>(r: R) -> int;
pub uninterp spec fn range_hi<R>(r: R) -> int;

#[verifier::external_body]
pub broadcast proof fn axiom_range_usize_lo(r: core::ops::Range<usize>)
    ensures
        #[trigger] range_lo(r) == r.start as int,
{
}

#[verifier::external_body]
pub broadcast proof fn axiom_range_usize_hi(r: core::ops::Range<usize>)
    ensures
        #[trigger] range_hi(r) == r.end as int,
{
}

/// `..n` is `0..n`.
#[verifier::external_body]
pub broadcast proof fn axiom_range_to_usize_lo(r: core::ops::RangeTo<usize>)
    ensures
        #[trigger] range_lo(r) == 0,
{
}

#[verifier::external_body]
pub broadcast proof fn axiom_range_to_usize_hi(r: core::ops::RangeTo<usize>)
    ensures
        #[trigger] range_hi(r) == r.end as int,
{
}

pub broadcast group axiom_range_usize {
    axiom_range_usize_lo,
    axiom_range_usize_hi,
    axiom_range_to_usize_lo,
    axiom_range_to_usize_hi,
}

#[verifier::external_type_specification]
#[verifier::external_body]
#[verifier::reject_recursive_types(A)]
#[verifier::reject_recursive_types(T)]
pub struct ExDrain<'a, T: 'a, A: core::alloc::Allocator>(::std::vec::Drain<'a, T, A>);

// slice::sort_by_cached_key (and the other stable/unstable by-key sorts have the same contract):
// the result is a permutation of the input, and the keys that `f` returned for the elements are in
// non-decreasing order.
pub assume_specification<T, K, F>[ <[T]>::sort_by_cached_key ](s: &mut [T], f: F) where
    F: FnMut(&T) -> K,
    K: core::cmp::Ord,

    requires
        forall|x: &T| #[trigger] call_requires(f, (x,)),
    ensures
        final(s)@.to_multiset() == old(s)@.to_multiset(),
        final(s)@.len() == old(s)@.len(),
        exists|keys: Seq<K>|
            keys.len() == final(s)@.len()
            && (forall|i: int| #![trigger final(s)@[i]] 0 <= i < keys.len() ==> call_ensures(f, (&final(s)@[i],), keys[i]))
            && (forall|i: int, j: int| 0 <= i < j < keys.len() ==> ord_le(#[trigger] keys[i], #[trigger] keys[j])),
;

pub assume_specification<T, K, F>[ <[T]>::sort_by_key ](s: &mut [T], f: F) where
    F: FnMut(&T) -> K,
    K: core::cmp::Ord,

    requires
        forall|x: &T| #[trigger] call_requires(f, (x,)),
    ensures
        final(s)@.to_multiset() == old(s)@.to_multiset(),
        final(s)@.len() == old(s)@.len(),
        exists|keys: Seq<K>|
            keys.len() == final(s)@.len()
            && (forall|i: int| #![trigger final(s)@[i]] 0 <= i < keys.len() ==> call_ensures(f, (&final(s)@[i],), keys[i]))
            && (forall|i: int, j: int| 0 <= i < j < keys.len() ==> ord_le(#[trigger] keys[i], #[trigger] keys[j])),
;

pub assume_specification<T, K, F>[ <[T]>::sort_unstable_by_key ](s: &mut [T], f: F) where
    F: FnMut(&T) -> K,
    K: core::cmp::Ord,

    requires
        forall|x: &T| #[trigger] call_requires(f, (x,)),
    ensures
        final(s)@.to_multiset() == old(s)@.to_multiset(),
        final(s)@.len() == old(s)@.len(),
        exists|keys: Seq<K>|
            keys.len() == final(s)@.len()
            && (forall|i: int| #![trigger final(s)@[i]] 0 <= i < keys.len() ==> call_ensures(f, (&final(s)@[i],), keys[i]))
            && (forall|i: int, j: int| 0 <= i < j < keys.len() ==> ord_le(#[trigger] keys[i], #[trigger] keys[j])),
;

// Vec::drain(range): removes the range; the returned iterator yields exactly the removed items.
pub assume_specification<'a, T, A, R>[ ::std::vec::Vec::<T, A>::drain ](v: &'a mut ::std::vec::Vec<T, A>, r: R) -> (d: ::std::vec::Drain<'a, T, A>) where
    A: core::alloc::Allocator,
    R: core::ops::RangeBounds<usize>,

    requires
        0 <= range_lo(r) <= range_hi(r) <= old(v)@.len(),
    ensures
        iter_items(d) == old(v)@.subrange(range_lo(r), range_hi(r)),
        final(v)@ == old(v)@.subrange(0, range_lo(r)) + old(v)@.subrange(range_hi(r), old(v)@.len() as int),
;

// Vec::extend(iter): appends the iterator's items in order.
pub assume_specification<T, A, I>[ <::std::vec::Vec<T, A> as core::iter::Extend<T>>::extend ](v: &mut ::std::vec::Vec<T, A>, i: I) where
    A: core::alloc::Allocator,
    I: core::iter::IntoIterator<Item = T>,

    ensures
        final(v)@ == old(v)@ + iter_items(i),
;

pub assume_specification<T>[ <[T]>::reverse ](s: &mut [T])
    ensures
        final(s)@ == old(s)@.reverse(),
;

pub assume_specification<T>[ Option::<T>::or ](a: Option<T>, b: Option<T>) -> (r: Option<T>)
    ensures
        r == (if a.is_some() { a } else { b }),
;


// Iterator::size_hint: for an iterator that obeys the iterator laws, the two bounds bracket the number of items left
// (the documented meaning of a correct implementation; nothing is said about an iterator that breaks the laws).
// An absent upper bound says nothing: code that reads `None` as "no more than the lower bound" does not verify.
/// T18 stand-in for `it.size_hint()` (vstd's external specification of Iterator cannot be extended).
#[verifier::external_body]
pub fn kv_size_hint<I: core::iter::Iterator>(it: &I) -> (r: (usize, Option<usize>))
    ensures
        vstd::std_specs::iter::IteratorSpec::obeys_prophetic_iter_laws(it) ==>
            r.0 <= vstd::std_specs::iter::IteratorSpec::remaining(it).len()
            && (r.1 matches Some(u) ==> vstd::std_specs::iter::IteratorSpec::remaining(it).len() <= u),
{
    it.size_hint()
}
