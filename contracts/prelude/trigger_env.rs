// ---------------------------------------------------------------------------------------------
// Environment of trigger.rs.  T2: the `rand` crate is shadowed by this stand-in module (no token
// of the extracted code changes).  T5: `RefCell<u64>` is the thread-local countdown; its value is
// the ghost field `w.counter` (one owner per thread, which is what a thread-local is).
// ---------------------------------------------------------------------------------------------
pub mod rand {
    use super::*;

    pub trait RngCore {
        fn next_u64(&mut self) -> u64;
    }

    #[verifier::external_body]
    pub struct ThreadRng {
        x: u8,
    }

    impl RngCore for ThreadRng {
        // Assumption: the random source may return any u64 (no constraint at all).
        #[verifier::external_body]
        fn next_u64(&mut self) -> u64 {
            unimplemented!()
        }
    }

    pub trait Rng {
        fn gen_range(&mut self, range: core::ops::Range<usize>) -> (r: usize)
            requires
                range.start < range.end,
            ensures
                range.start <= r < range.end,
        ;
    }

    impl Rng for ThreadRng {
        // Assumption: the value lies in the requested range; nothing else.
        #[verifier::external_body]
        fn gen_range(&mut self, range: core::ops::Range<usize>) -> (r: usize) {
            unimplemented!()
        }
    }

    #[verifier::external_body]
    pub fn thread_rng() -> ThreadRng {
        unimplemented!()
    }
}

#[verifier::external_body]
#[verifier::reject_recursive_types(T)]
pub struct RefCell<T> {
    x: core::marker::PhantomData<T>,
}

impl RefCell<u64> {
    #[verifier::external_body]
    pub fn borrow(&self, Tracked(w): Tracked<&mut World>) -> (r: &u64)
        ensures
            *r == old(w).counter,
            *final(w) == *old(w),
    {
        unimplemented!()
    }

    #[verifier::external_body]
    pub fn replace(&self, v: u64, Tracked(w): Tracked<&mut World>) -> (r: u64)
        ensures
            r == old(w).counter,
            *final(w) == (World { counter: v, ..*old(w) }),
    {
        unimplemented!()
    }
}

/// The thread-local `COUNTER` cell.
#[verifier::external_body]
pub fn counter_cell() -> &'static RefCell<u64> {
    unimplemented!()
}

// ---------------------------------------------------------------------------------------------
// Specification of one trigger observation, from the statement of C10 / the module's intent:
// the countdown is decremented by `weight`; when that would make it non-positive the trigger
// fires and the countdown restarts from a fresh positive draw.  A zero countdown means "first
// use in this thread": a draw is taken first and the same rule applied to it.
// ---------------------------------------------------------------------------------------------
pub open spec fn observe_step(c0: u64, weight: u64, fired: bool, c1: u64) -> bool {
    if c0 > weight {
        !fired && c1 == c0 - weight
    } else if c0 > 0 {
        fired && c1 > 0
    } else {
        // first use: for some positive draw u
        c1 > 0 && (!fired ==> exists|u: u64| u > weight && c1 == #[trigger] (u - weight) as u64)
    }
}

/// `j` consecutive observations of weight `scale`, starting from countdown `c`, none of which fired.
pub open spec fn nonfiring_run(c: u64, scale: u64, j: nat) -> bool
    decreases j,
{
    j == 0 || exists|c1: u64| #[trigger] observe_step(c, scale, false, c1) && nonfiring_run(c1, scale, (j - 1) as nat)
}

pub proof fn lemma_nonfiring_bound(c: u64, scale: u64, j: nat)
    requires
        nonfiring_run(c, scale, j),
    ensures
        c > 0 ==> j * scale < c,
        c == 0 ==> j * scale < u64::MAX,
    decreases j,
{
    if j > 0 {
        let c1 = choose|c1: u64| #[trigger] observe_step(c, scale, false, c1) && nonfiring_run(c1, scale, (j - 1) as nat);
        lemma_nonfiring_bound(c1, scale, (j - 1) as nat);
        assert(c1 > 0);
        assert((j - 1) * scale < c1);
        assert(j * scale == (j - 1) * scale + scale) by (nonlinear_arith);
        if c > 0 {
            assert(c1 == c - scale);
        } else {
            let u = choose|u: u64| u > scale && c1 == #[trigger] (u - scale) as u64;
            assert(c1 + scale == u);
        }
    } else {
        assert(j * scale == 0) by (nonlinear_arith)
            requires
                j == 0,
        ;
    }
}

/// C10, first half: a trigger whose scale satisfies `period * scale >= u64::MAX` fires at least once
/// in every `period` consecutive events, from any countdown value and for all random draws.
pub proof fn lemma_fire_within_period(c: u64, scale: u64, period: nat, j: nat)
    requires
        period >= 1,
        period * scale >= u64::MAX,
        nonfiring_run(c, scale, j),
    ensures
        j < period,
{
    lemma_nonfiring_bound(c, scale, j);
    assert(j * scale < u64::MAX);
    if j >= period {
        assert(j * scale >= period * scale) by (nonlinear_arith)
            requires
                j >= period,
        ;
    }
}

/// ceil(u64::MAX / max(period, 1))
pub open spec fn scale_spec(period: u64) -> int {
    let p = if period == 0 { 1int } else { period as int };
    (u64::MAX as int + p - 1) / p
}

pub proof fn lemma_scale_spec(period: u64)
    ensures
        0 < scale_spec(period) <= u64::MAX,
        (if period == 0 { 1int } else { period as int }) * scale_spec(period) >= u64::MAX,
        ((if period == 0 { 1int } else { period as int }) * (scale_spec(period) - 1)) < u64::MAX,
        scale_spec(period) == u64::MAX as int / (if period == 0 { 1int } else { period as int }) + (if (u64::MAX as int % (if period
            == 0 { 1int } else { period as int })) > 0 { 1int } else { 0int }),
{
    let p = if period == 0 { 1int } else { period as int };
    let m = u64::MAX as int;
    let q = m / p;
    let r = m % p;
    assert(m == p * q + r && 0 <= r < p) by (nonlinear_arith)
        requires
            p > 0,
            q == m / p,
            r == m % p,
    ;
    if r == 0 {
        assert((m + p - 1) / p == q) by (nonlinear_arith)
            requires
                p > 0,
                m == p * q,
        ;
    } else {
        assert((m + p - 1) / p == q + 1) by (nonlinear_arith)
            requires
                p > 0,
                m == p * q + r,
                0 < r < p,
        ;
    }
    assert(q >= 1 && q <= m) by (nonlinear_arith)
        requires
            p > 0,
            p <= m,
            m == p * q + r,
            0 <= r < p,
    ;
    assert(p * (q + 1) > m) by (nonlinear_arith)
        requires
            m == p * q + r,
            0 <= r < p,
    ;
    assert(p * (q - 1) < m && p * q <= m) by (nonlinear_arith)
        requires
            p > 0,
            m == p * q + r,
            0 <= r < p,
    ;
    if r > 0 {
        assert(p * q < m) by (nonlinear_arith)
            requires
                m == p * q + r,
                r > 0,
        ;
        assert(q + 1 <= m) by (nonlinear_arith)
            requires
                p >= 2,
                m == p * q + r,
                0 <= r < p,
                m >= 4,
        ;
    }
}

/// C10, second half (pure arithmetic over the per-write facts proved elsewhere): starting from a
/// directory that maintenance has just brought to at most `k` files, each write adds at most one
/// file and maintenance recurs within `period` writes; the population never exceeds `k + period`.
pub proof fn lemma_growth_bound(k: nat, period: nat, since_maintenance: nat, population: nat)
    requires
        period >= 1,
        since_maintenance <= period,
        population <= k + since_maintenance,
    ensures
        population <= k + period,
{
}
