// ---------------------------------------------------------------------------------------------
// C12: the documented multiply-add-then-scale mapping.  The four constants are SHA-256 derived:
// multiplier = LE64(sha256(s)[0..8]) | 1, addend = LE64(sha256(s)[8..16]) for the two fixed strings
// "kismet: primary shard mixer" / "kismet: secondary shard mixer".  They are computed by the check
// itself (python hashlib) on every run and substituted below; the real crate's constants are
// compared with them by a Kani harness on the unmodified crate (unit U7).
// ---------------------------------------------------------------------------------------------
pub open spec fn pm() -> u64 { @PM@u64 }
pub open spec fn pa() -> u64 { @PA@u64 }
pub open spec fn sm() -> u64 { @SM@u64 }
pub open spec fn sa() -> u64 { @SA@u64 }

pub open spec fn two64() -> int { 0x1_0000_0000_0000_0000int }

/// floor(domain * x / 2^64)
#[verifier::opaque]
pub open spec fn reduce_spec(x: u64, domain: usize) -> int {
    (domain as int * x as int) / two64()
}

/// (value * multiplier + addend) mod 2^64
#[verifier::opaque]
pub open spec fn mix_spec(multiplier: u64, addend: u64, value: u64) -> u64 {
    ((value as int * multiplier as int + addend as int) % two64()) as u64
}

pub open spec fn other_shard_spec(base: int, other: int, n: int) -> int {
    if base != other { other } else if other + 1 < n { other + 1 } else { 0 }
}

pub open spec fn shard_ids_spec(hash: u64, secondary: u64, n: usize) -> (int, int) {
    let h1 = reduce_spec(mix_spec(pm(), pa(), hash), n);
    let h2 = reduce_spec(mix_spec(sm(), sa(), secondary), n);
    (h1, other_shard_spec(h1, h2, n as int))
}

pub proof fn lemma_reduce(x: u64, domain: usize)
    ensures
        0 <= domain as int * x as int <= u128::MAX,
        0 <= reduce_spec(x, domain) <= usize::MAX,
        domain > 0 ==> reduce_spec(x, domain) < domain,
        domain == 0 ==> reduce_spec(x, domain) == 0,
{
    reveal(reduce_spec);
    let d = domain as int;
    let xi = x as int;
    let b = two64();
    assert(0 <= d * xi && d * xi <= d * (b - 1) && d * (b - 1) <= (b - 1) * (b - 1)) by (nonlinear_arith)
        requires
            0 <= d <= b - 1,
            0 <= xi <= b - 1,
    ;
    assert((d * xi) / b <= d && (d > 0 ==> (d * xi) / b < d) && (d * xi) / b >= 0) by (nonlinear_arith)
        requires
            0 <= d,
            0 <= xi <= b - 1,
            b > 0,
            0 <= d * xi <= d * (b - 1),
    ;
}

/// C12: with n >= 2 the two candidates are in range and distinct.
pub proof fn lemma_shard_ids(hash: u64, secondary: u64, n: usize)
    requires
        n >= 2,
    ensures
        0 <= shard_ids_spec(hash, secondary, n).0 < n,
        0 <= shard_ids_spec(hash, secondary, n).1 < n,
        shard_ids_spec(hash, secondary, n).0 != shard_ids_spec(hash, secondary, n).1,
{
    lemma_reduce(mix_spec(pm(), pa(), hash), n);
    lemma_reduce(mix_spec(sm(), sa(), secondary), n);
}

#[verifier::external_type_specification]
#[verifier::external_body]
pub struct ExPathBuf(std::path::PathBuf);
