
// ---- appended by /verif (scratch copy only): Kani twin, compile-time constants ----------------
#[cfg(kani)]
mod kv_twin {
    use super::*;

    /// The crate's two mixers equal the constants derived (by the check, with hashlib) from
    /// SHA-256 of the two fixed strings: mix(0) = addend, mix(1) = multiplier + addend (mod 2^64).
    #[kani::proof]
    fn mixer_constants() {
        assert!(PRIMARY_MIXER.mix(0) == @PA@u64);
        assert!(PRIMARY_MIXER.mix(1) == (@PM@u64).wrapping_add(@PA@u64));
        assert!(SECONDARY_MIXER.mix(0) == @SA@u64);
        assert!(SECONDARY_MIXER.mix(1) == (@SM@u64).wrapping_add(@SA@u64));
    }
}
