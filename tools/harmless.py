#!/usr/bin/env python3
"""False-alarm guard: property-preserving edits on a scratch copy of /repo must never produce a failed obligation.

contracts/selftest/harmless.json: [{name, file, edits:[{old,new}], why}].  For each edit the units u1, u2, u3 and u6 are
rebuilt from the scratch copy and verified once (every filesystem property reads the same Verus run).  Outcome per edit:
  verified   -> every obligation of every property still discharged (what we want)
  undecided  -> an anchor was lost / the woven file does not compile: acceptable (exit 2 for the affected checks), counted
  ALARM      -> a definite obligation failure: a false alarm of the machinery; the script exits 1."""
import json
import os
import subprocess
import sys
import tempfile

sys.path.insert(0, os.path.dirname(os.path.abspath(__file__)))
import kv
import dev
from extract import ExtractError

UNITS = ['u1_planner', 'u2_trigger', 'u3_hash', 'u6_stack']


def run_units(repo):
    import extract
    extract._cache.clear()   # the scratch copy is edited in place between runs
    fails, und = [], []
    for name in UNITS:
        try:
            u, res, f, n, _ = dev.verify_unit(name, repo=repo, rlimit=30, suffix='_harmless')
            fails += [(name, x['fn'], x['labels'], x['message']) for x in f]
            und += [(name, x[:200]) for x in n]
        except (ExtractError, kv.Undecided) as e:
            und.append((name, '%s: %s' % (type(e).__name__, str(e)[:200])))
    return fails, und


def main():
    want = sys.argv[1:]
    M = json.load(open(os.path.join(kv.VERIF, 'contracts', 'selftest', 'harmless.json')))
    scratch = tempfile.mkdtemp(prefix='kv_harmless_')
    alarms = 0
    try:
        # the committed tree (never /repo's working tree, which another harness may have patched)
        subprocess.run('git -C /repo archive HEAD | tar -x -C %s' % scratch, shell=True, check=True)
        for m in M:
            if want and m['name'] not in want:
                continue
            path = os.path.join(scratch, m['file'])
            orig = open(path).read()
            text = orig
            ok = True
            for e in m['edits']:
                if text.count(e['old']) != 1:
                    print('BROKEN %s: pattern occurs %d times: %r' % (m['name'], text.count(e['old']), e['old'][:50]))
                    ok = False
                    break
                text = text.replace(e['old'], e['new'])
            if not ok:
                alarms += 1
                continue
            open(path, 'w').write(text)
            try:
                fails, und = run_units(scratch)
            finally:
                open(path, 'w').write(orig)
            if fails:
                alarms += 1
                print('ALARM     %s: %s' % (m['name'], fails[:3]))
            elif und:
                print('undecided %s: %s' % (m['name'], und[0]))
            else:
                print('verified  %s' % m['name'])
    finally:
        subprocess.run(['rm', '-rf', scratch])
    print('harmless edits: %d false alarm(s)' % alarms)
    return 1 if alarms else 0


if __name__ == '__main__':
    sys.exit(main())
