#!/usr/bin/env python3
"""Developer loop: build a unit from /repo, erasure-check it, run Verus, print diagnostics."""
import importlib.util
import os
import sys

sys.path.insert(0, os.path.dirname(os.path.abspath(__file__)))
import kv


def load_unit(name, repo=None, probe=False):
    p = os.path.join(kv.VERIF, 'contracts', 'units', name + '.py')
    spec = importlib.util.spec_from_file_location(name, p)
    m = importlib.util.module_from_spec(spec)
    spec.loader.exec_module(m)
    import weave
    weave.HINTS_OFF.clear()
    for _attempt in range(12):
        u = kv.Unit(name, repo=repo, probe=probe)
        try:
            m.build(u)
            break
        except weave.HintLost as e:
            # rebuild with the proof hints of that function switched off (see weave.HintLost)
            weave.HINTS_OFF[e.fn] = e.msg
    else:
        raise kv.Undecided('proof hints lost in too many functions: %s' % sorted(weave.HINTS_OFF))
    u.hints_off = dict(weave.HINTS_OFF)
    weave.HINTS_OFF.clear()
    u.serves = m.SERVES
    u.verus_flags = getattr(m, 'VERUS_FLAGS', [])
    return u


if __name__ == '__main__':
    name = sys.argv[1]
    u = load_unit(name)
    u.assemble()
    u.write()
    ntok = u.erasure_check()
    print('erasure ok: %d source tokens; transformations %s' % (ntok, u.transformations()))
    res = kv.run_verus(u.gen_path, flags=u.verus_flags, rlimit=float(os.environ.get('RLIMIT', '30')))
    fails, und = kv.classify(u, res)
    for d in res['diags']:
        if d.get('level') == 'error' and d.get('rendered'):
            print(d['rendered'])
    for ln in res['stderr_other'][:40]:
        print('STDERR', ln)
    print(res['json'].get('verification-results'))
    for f in fails:
        print('FAIL', f['message'], f['fn'], f['labels'], f['props'], 'line', f['line'])
    for x in und:
        print('UNDECIDED', x[:300])
    print('wall %.1fs' % res['wall'])
    t = kv.fn_times(res)
    for k, v in sorted(t.items(), key=lambda kv_: -kv_[1])[:8]:
        print('  %6.2fs %s' % (v, k))
