#!/usr/bin/env python3
"""Developer loop: build a unit from /repo, erasure-check it, run Verus, print diagnostics."""
import importlib.util
import os
import sys

sys.path.insert(0, os.path.dirname(os.path.abspath(__file__)))
import kv


def load_unit(name, repo=None, probe=False, hints_off=None, drop_asserts=None):
    p = os.path.join(kv.VERIF, 'contracts', 'units', name + '.py')
    spec = importlib.util.spec_from_file_location(name, p)
    m = importlib.util.module_from_spec(spec)
    spec.loader.exec_module(m)
    import weave
    weave.HINTS_OFF.clear()
    weave.HINTS_OFF.update(hints_off or {})
    weave.DROP_ASSERTS.clear()
    weave.DROP_ASSERTS.update(drop_asserts or {})
    weave.DROPPED_ASSERTS.clear()
    for _attempt in range(12):
        u = kv.Unit(name, repo=repo, probe=probe)
        try:
            m.build(u)
            break
        except weave.HintLost as e:
            # rebuild with the proof hints of that function switched off (see weave.HintLost)
            weave.HINTS_OFF[e.fn] = e.msg
    else:
        raise kv.Undecided('proof hints lost in too many functions: %s' % sorted(weave.HINTS_OFF))
    u.hints_off = dict(weave.HINTS_OFF)
    u.dropped_asserts = set(weave.DROPPED_ASSERTS)
    weave.HINTS_OFF.clear()
    weave.DROP_ASSERTS.clear()
    u.serves = m.SERVES
    u.verus_flags = getattr(m, 'VERUS_FLAGS', [])
    return u


def verify_unit(name, repo=None, probe=False, rlimit=30, log_air=False, suffix=''):
    """Build, erasure-check, verify and classify one unit.  When an assertion inside an anchored proof hint fails, the
    hint no longer fits the (changed) code: the unit is rebuilt once with the hints of those functions switched off and
    verified again, so that the obligations themselves decide (weave.HintLost explains what happens to failures then)."""
    hints_off, drop = None, {}
    for _round in range(4):
        u = load_unit(name, repo=repo, probe=probe, hints_off=hints_off, drop_asserts=drop)
        u.assemble()
        u.write(suffix)
        ntok = u.erasure_check()
        res = kv.run_verus(u.gen_path, flags=u.verus_flags, rlimit=rlimit, log_air=log_air)
        fails, und = kv.classify(u, res)
        bad = [f for f in fails if f.get('hint_failed') and f['fn'] and f['fn'] not in u.hints_off]
        if not bad or probe:
            break
        # first choice: strip exactly the assertion that failed (a failed assert is assumed afterwards, which hides the
        # obligation it was meant to help) and let the obligations decide with every other hint in place; if the text
        # cannot be located in a hint of that function, switch all anchored hints of the function off instead
        hints_off = dict(u.hints_off)
        for f in bad:
            e = f.get('assert_text')
            if e and (f['fn'], e) not in u.dropped_asserts and e not in drop.get(f['fn'], []):
                drop.setdefault(f['fn'], []).append(e)
            else:
                hints_off[f['fn']] = 'an assertion inside a proof hint of this function no longer holds'
    u.stripped_hint_asserts = sorted('%s: assert(%s)' % x for x in u.dropped_asserts)
    # a hint assertion that still fails (function already without anchored hints: it sits in a body_start hint) is not attributable
    kept = []
    for f in fails:
        if f.get('hint_failed'):
            und.append('an assertion inside a proof hint of %s failed: not attributable' % f['fn'])
        else:
            kept.append(f)
    return u, res, kept, und, ntok


if __name__ == '__main__':
    name = sys.argv[1]
    u = load_unit(name)
    u.assemble()
    u.write()
    ntok = u.erasure_check()
    print('erasure ok: %d source tokens; transformations %s' % (ntok, u.transformations()))
    res = kv.run_verus(u.gen_path, flags=u.verus_flags, rlimit=float(os.environ.get('RLIMIT', '30')))
    fails, und = kv.classify(u, res)
    for d in res['diags']:
        if d.get('level') == 'error' and d.get('rendered'):
            print(d['rendered'])
    for ln in res['stderr_other'][:40]:
        print('STDERR', ln)
    print(res['json'].get('verification-results'))
    for f in fails:
        print('FAIL', f['message'], f['fn'], f['labels'], f['props'], 'line', f['line'])
    for x in und:
        print('UNDECIDED', x[:300])
    print('wall %.1fs' % res['wall'])
    t = kv.fn_times(res)
    for k, v in sorted(t.items(), key=lambda kv_: -kv_[1])[:8]:
        print('  %6.2fs %s' % (v, k))
