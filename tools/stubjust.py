#!/usr/bin/env python3
"""Stub justification lemmas.

Every filesystem stand-in in contracts/prelude that takes the ghost World *ensures* `final(w).inv()`.  That clause is
meant to be a consequence of the stub's protocol precondition and of its stated effect, not an extra assumption.
This generator turns each such stub contract, mechanically, into a proof obligation

    proof fn justify_<stub>(kv_old: World, kv_fin: World, <the stub's other parameters>, r: <return type>)
        requires <every `requires` clause>, <every `ensures` clause that does not mention `.inv()`>
        ensures  kv_fin.inv()

(old(w) -> kv_old, final(w) -> kv_fin, old(x)/final(x) for other `&mut` parameters -> kv_old_x / kv_fin_x, `self` ->
kv_self) and Verus has to prove it.  Hints per stub are in HINTS.  A stub whose lemma is listed in ASSUMED is not
generated and is reported as an unjustified assumption in the evidence."""
import os
import re
import sys

sys.path.insert(0, os.path.dirname(os.path.abspath(__file__)))
import rustlex
from rustlex import match_close

# proof hints, keyed by lemma name
HINTS = {
    'justify_filetime_now': 'lemma_trunc_monotone(kv_old.now, kv_fin.now, kv_old.gran);',
    'justify_systemtime_now': 'lemma_trunc_monotone(kv_old.now, kv_fin.now, kv_old.gran);',
    'justify_set_file_times': 'lemma_trunc(mtime.ns(), kv_old.gran); lemma_trunc_monotone(mtime.ns(), kv_old.now, kv_old.gran);',
    'justify_set_file_handle_times': 'if mtime.is_some() { lemma_trunc(mtime.unwrap().ns(), kv_old.gran); lemma_trunc_monotone(mtime.unwrap().ns(), kv_old.now, kv_old.gran); }',
    'justify_copy': 'lemma_trunc(kv_fin.now, kv_old.gran); lemma_trunc_monotone(kv_old.now, kv_fin.now, kv_old.gran);',
    'justify_call_populate': 'lemma_trunc(kv_fin.now, kv_old.gran); lemma_trunc_monotone(kv_old.now, kv_fin.now, kv_old.gran);',
    'justify_namedtempfile_new_in': 'lemma_trunc(kv_old.now, kv_old.gran);',
    'justify_tempfile_in': 'lemma_trunc(kv_old.now, kv_old.gran);',
    'justify_builder_tempfile_in': 'lemma_trunc(kv_old.now, kv_old.gran);',
    'justify_tempfile': 'lemma_trunc(kv_old.now, kv_old.gran);',
    'justify_copy_2': 'lemma_trunc(kv_fin.now, kv_old.gran); lemma_path_split_w(pv(to));',
    'justify_create_dir_all': '''assert forall|d: PathV| #[trigger] kv_fin.dirs.contains(d) implies !kv_fin.in_cache_namespace(d) by {
        if !kv_old.dirs.contains(d) {
            assert(d.is_prefix_of(pv(p)));
            if !kv_old.cache_dirs.contains(pv(p)) {
                lemma_path_split_w(pv(p));
                lemma_prefix_of_child(d, parent(pv(p)), temp_name());
                if d == pv(p) {
                    assert(base_name(d)[0] == 0x2eu8);
                }
            }
        }
    }''',
    'justify_file_create': 'lemma_trunc(kv_old.now, kv_old.gran);',
    'justify_file_set_len': 'lemma_trunc(kv_old.now, kv_old.gran);',
    'justify_openoptions_open': 'lemma_trunc(kv_old.now, kv_old.gran);',
    'justify_create_dir': '''assert forall|d: PathV| #[trigger] kv_fin.dirs.contains(d) implies !kv_fin.in_cache_namespace(d) by {
        if !kv_old.dirs.contains(d) {
            assert(d == pv(p));
            assert(d.is_prefix_of(pv(p)));
            if !kv_old.cache_dirs.contains(pv(p)) {
                lemma_path_split_w(pv(p));
                assert(base_name(d)[0] == 0x2eu8);
            }
        }
    }''',
}
ASSUMED = {}


def _code(text):
    return rustlex.code(rustlex.lex(text))


def _split_top(ct, lo, hi):
    """top-level comma separated token ranges in ct[lo..hi] inclusive"""
    parts, start, i = [], lo, lo
    while i <= hi:
        t = ct[i]
        if t[0] == 'p' and t[1] in '([{':
            i = match_close(ct, i)
        elif t[0] == 'p' and t[1] == ',':
            if i > start:
                parts.append((start, i - 1))
            start = i + 1
        i += 1
    if hi >= start:
        parts.append((start, hi))
    return parts


def find_stubs(text):
    """Yield dicts for every fn in text with a `Tracked(w): Tracked<&mut World>` parameter and an `ensures` list that
    mentions `final(w).inv()`."""
    ct = _code(text)
    n = len(ct)
    # enclosing impl / trait headers: stack of (close_idx, kind, selfty)
    i = 0
    scopes = []
    out = []
    while i < n:
        while scopes and i > scopes[-1][0]:
            scopes.pop()
        t = ct[i]
        if t[0] == 'id' and t[1] in ('impl', 'trait') and (i == 0 or ct[i - 1][1] not in ('::', 'dyn', '<', ',', '+', ':')):
            j = i + 1
            while ct[j][1] != '{' and ct[j][1] != ';':
                if ct[j][1] in '([':
                    j = match_close(ct, j)
                j += 1
            if ct[j][1] == '{':
                hdr = [x[1] for x in ct[i + 1:j]]
                if t[1] == 'trait':
                    selfty = None
                    kind = 'trait:' + hdr[0]
                else:
                    if 'for' in hdr:
                        k = hdr.index('for')
                        selfty = ''.join(hdr[k + 1:]).split('where')[0]
                        kind = 'impl-trait:' + ''.join(hdr[:k])
                    else:
                        selfty = ''.join(hdr).split('where')[0]
                        kind = 'impl'
                    if hdr and hdr[0] == '<':
                        selfty = None   # generic impl: skip
                scopes.append((match_close(ct, j), kind, selfty))
        if t[0] == 'id' and t[1] == 'fn' and ct[i + 1][0] == 'id':
            name = ct[i + 1][1]
            j = i + 2
            generics = ''
            if ct[j][1] == '<':
                depth, k = 0, j
                while True:
                    if ct[k][1] == '<':
                        depth += 1
                    elif ct[k][1] == '>' and ct[k - 1][1] != '-':
                        depth -= 1
                        if depth == 0:
                            break
                    k += 1
                generics = text[ct[j][2]:ct[k][3]]
                j = k + 1
            if ct[j][1] != '(':
                i += 1
                continue
            pc = match_close(ct, j)
            params = [text[ct[a][2]:ct[b][3]] for a, b in _split_top(ct, j + 1, pc - 1)]
            if not any(re.sub(r'\s+', '', p) == 'Tracked(w):Tracked<&mutWorld>' for p in params):
                i = pc
                continue
            # return
            k = pc + 1
            ret_name, ret_ty = None, None
            if ct[k][1] == '-' and ct[k + 1][1] == '>':
                k += 2
                if ct[k][1] == '(' and ct[k + 1][0] == 'id' and ct[k + 2][1] == ':':
                    c = match_close(ct, k)
                    ret_name = ct[k + 1][1]
                    ret_ty = text[ct[k + 3][2]:ct[c - 1][3]]
                    k = c + 1
                else:
                    # unnamed result: no postcondition can mention it
                    while ct[k][1] not in ('requires', 'ensures', '{', ';', 'where'):
                        k += 1
            # clauses
            req, ens = [], []
            cur = None
            start = None
            body_or_end = k
            while ct[body_or_end][1] not in ('{', ';') or cur is not None and False:
                tok = ct[body_or_end]
                if tok[0] == 'id' and tok[1] in ('requires', 'ensures', 'where', 'decreases'):
                    break
                body_or_end += 1
            k = body_or_end
            sections = {}
            while ct[k][0] == 'id' and ct[k][1] in ('requires', 'ensures', 'where'):
                sec = ct[k][1]
                a = k + 1
                b = a
                while True:
                    tk = ct[b]
                    if tk[0] == 'p' and tk[1] in '([':
                        b = match_close(ct, b) + 1
                        continue
                    if tk[0] == 'p' and tk[1] == '{':
                        # clauses end with a trailing comma (verusfmt style): a `{` right after `,` is the function body
                        if ct[b - 1][1] == ',' or b == a:
                            break
                        b = match_close(ct, b) + 1
                        continue
                    if tk[0] == 'id' and tk[1] in ('requires', 'ensures') and ct[b - 1][1] == ',':
                        break
                    if tk[0] == 'p' and tk[1] == ';' :
                        break
                    b += 1
                sections[sec] = (a, b - 1)
                k = b
            if 'ensures' not in sections:
                i = pc
                continue
            ens = [text[ct[a][2]:ct[b][3]] for a, b in _split_top(ct, *sections['ensures'])]
            req = [text[ct[a][2]:ct[b][3]] for a, b in _split_top(ct, *sections['requires'])] if 'requires' in sections else []
            if not any(re.sub(r'\s+', '', e) == 'final(w).inv()' for e in ens):
                i = pc
                continue
            scope = scopes[-1] if scopes else (None, 'free', None)
            out.append({'name': name, 'generics': generics, 'params': params, 'ret_name': ret_name, 'ret_ty': ret_ty,
                        'requires': req, 'ensures': ens, 'scope_kind': scope[1], 'selfty': scope[2],
                        'where': text[ct[sections['where'][0]][2]:ct[sections['where'][1]][3]] if 'where' in sections else ''})
            i = pc
            continue
        i += 1
    return out


def _is_match_scrutinee(ct, a, b):
    """is the `{` at b the body of a `match <expr> {` whose `match` keyword lies in [a, b)?"""
    depth = 0
    for k in range(b - 1, a - 1, -1):
        s = ct[k][1]
        if s in ')]}':
            depth += 1
        elif s in '([{':
            depth -= 1
        elif s == 'match' and depth == 0:
            return True
        elif s == ',' and depth == 0:
            return False
    return False


def _subst(expr, mutrefs, has_self):
    s = expr
    s = re.sub(r'\*\s*old\(\s*w\s*\)', 'kv_old', s)
    s = re.sub(r'\*\s*final\(\s*w\s*\)', 'kv_fin', s)
    s = re.sub(r'\bold\(\s*w\s*\)', 'kv_old', s)
    s = re.sub(r'\bfinal\(\s*w\s*\)', 'kv_fin', s)
    for m in mutrefs:
        s = re.sub(r'\*\s*old\(\s*%s\s*\)' % m, 'kv_old_%s' % m, s)
        s = re.sub(r'\*\s*final\(\s*%s\s*\)' % m, 'kv_fin_%s' % m, s)
        s = re.sub(r'\bold\(\s*%s\s*\)' % m, 'kv_old_%s' % m, s)
        s = re.sub(r'\bfinal\(\s*%s\s*\)' % m, 'kv_fin_%s' % m, s)
    if has_self and 'self' not in mutrefs:
        s = re.sub(r'\*\s*self\b', 'kv_self', s)
        s = re.sub(r'\bself\b', 'kv_self', s)
    return s


def lemma_for(st, prefix=''):
    """Rust text of the justification lemma of one stub (or None if it cannot be expressed)."""
    lname = 'justify_' + prefix + st['name']
    params = []
    mutrefs = []
    has_self = False
    for p in st['params']:
        q = re.sub(r'\s+', ' ', p.strip())
        if re.sub(r'\s+', '', q) == 'Tracked(w):Tracked<&mutWorld>':
            continue
        if q in ('&self', 'self', '&mut self') and not st['selfty'] and st['scope_kind'].startswith('trait:'):
            st = dict(st)
            st['selfty'] = 'KvSelf'
            st['generics'] = '<KvSelf: %s>' % st['scope_kind'].split(':')[1]
        if q in ('&self', 'self'):
            if not st['selfty']:
                return lname, None
            has_self = True
            params.append('kv_self: %s' % st['selfty'])
            continue
        if q == '&mut self':
            if not st['selfty']:
                return lname, None
            has_self = True
            mutrefs.append('self')
            params.append('kv_old_self: %s' % st['selfty'])
            params.append('kv_fin_self: %s' % st['selfty'])
            continue
        m = re.match(r'^(Ghost\((\w+)\)|(\w+)): (.*)$', q)
        if not m:
            return lname, None
        pname = m.group(2) or m.group(3)
        ty = m.group(4)
        g = re.match(r'^Ghost<(.*)>$', ty)
        if g:
            ty = g.group(1)
        if ty.startswith('&mut '):
            mutrefs.append(pname)
            params.append('kv_old_%s: %s' % (pname, ty[5:]))
            params.append('kv_fin_%s: %s' % (pname, ty[5:]))
        else:
            params.append('%s: %s' % (pname, ty))
    if st['ret_name']:
        params.append('%s: %s' % (st['ret_name'], st['ret_ty']))
    req = [_subst(r, mutrefs, has_self) for r in st['requires']]
    eff = [_subst(e, mutrefs, has_self) for e in st['ensures'] if '.inv()' not in e]
    if st['selfty'] == 'KvSelf':
        params = [re.sub(r'\bSelf\b', 'KvSelf', p_) for p_ in params]
    hint = HINTS.get(lname, '')
    txt = '/// Justification of the stand-in `%s`%s: its protocol precondition and its stated effect imply the invariant.\n' % (
        st['name'], (' (' + st['selfty'] + ')') if st['selfty'] else '')
    txt += 'pub proof fn %s%s(kv_old: World, kv_fin: World%s)\n' % (lname, st['generics'], ''.join(', ' + p for p in params))
    if st['where']:
        txt += '    where\n        %s\n' % st['where'].rstrip(',') + ',\n'
    txt += '    requires\n' + ''.join('        %s,\n' % c for c in req + eff)
    txt += '    ensures\n        kv_fin.inv(),   // @L KV-STUB:%s-preserves-the-invariant\n' % st['name']
    txt += '{\n%s}\n' % (('    ' + hint + '\n') if hint else '')
    return lname, txt


def generate(files, module_paths):
    """files: list of (relname, text); returns (rust text, [lemma names], [skipped])"""
    out, names, skipped = [], [], []
    seen = {}
    for rel, text in files:
        for st in find_stubs(text):
            prefix = ''
            if st['selfty']:
                prefix = re.sub(r'\W+', '_', st['selfty']).strip('_').lower() + '_'
            elif st['scope_kind'].startswith('trait:'):
                prefix = st['scope_kind'].split(':')[1].lower() + '_'
            lname, txt = lemma_for(st, prefix)
            if lname in seen:
                k = 2
                while '%s_%d' % (lname, k) in seen:
                    k += 1
                txt = txt.replace(lname + '(', '%s_%d(' % (lname, k)).replace(lname + '<', '%s_%d<' % (lname, k)) if txt else None
                lname = '%s_%d' % (lname, k)
            seen[lname] = True
            if lname in ASSUMED:
                skipped.append((lname, ASSUMED[lname]))
                continue
            if txt is None:
                skipped.append((lname, 'contract shape not handled by the generator'))
                continue
            out.append(txt)
            names.append(lname)
    return '\n'.join(out), names, skipped


if __name__ == '__main__':
    base = os.path.join(os.path.dirname(os.path.dirname(os.path.abspath(__file__))), 'contracts', 'prelude')
    files = [(f, open(os.path.join(base, f)).read()) for f in sys.argv[1:]]
    txt, names, skipped = generate(files, None)
    print(txt)
    print('// lemmas:', names, file=sys.stderr)
    print('// skipped:', skipped, file=sys.stderr)
