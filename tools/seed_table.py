#!/usr/bin/env python3
"""Run every seeded change against the check(s) of its property and record the outcome.

For each /verif/seeded/<id>/: apply patch.diff to /repo, run ./check <prop> --no-probe for the property the seed
was written against (evidence redirected), undo the patch, and write seeded/<id>/result.json.  Prints a markdown table."""
import json
import os
import re
import subprocess
import sys

VERIF = os.path.dirname(os.path.dirname(os.path.abspath(__file__)))


def main():
    want = sys.argv[1:]
    rows = []
    for sid in sorted(os.listdir(os.path.join(VERIF, 'seeded'))):
        d = os.path.join(VERIF, 'seeded', sid)
        if not os.path.isfile(os.path.join(d, 'patch.diff')):
            continue
        if want and sid not in want:
            if os.path.isfile(os.path.join(d, 'result.json')):
                rows.append(json.load(open(os.path.join(d, 'result.json'))))
            continue
        prop = sid.split('-')[0]
        meta = json.load(open(os.path.join(d, 'meta.json')))
        st = subprocess.run(['git', '-C', '/repo', 'status', '--porcelain'], stdout=subprocess.PIPE, text=True).stdout.strip()
        if st:
            print('refusing: /repo is not clean', file=sys.stderr)
            return 2
        r = subprocess.run(['git', '-C', '/repo', 'apply', os.path.join(d, 'patch.diff')])
        if r.returncode:
            res = {'seed': sid, 'property': prop, 'rc': None, 'outcome': 'patch does not apply', 'obligations': []}
        else:
            try:
                p = subprocess.run([os.path.join(VERIF, 'check'), prop, '--no-probe'], env=dict(os.environ, KV_EVIDENCE_DIR='/tmp/seed_ev'),
                                   stdout=subprocess.PIPE, stderr=subprocess.STDOUT, text=True)
            finally:
                subprocess.run(['git', '-C', '/repo', 'checkout', '--', '.'])
            out = p.stdout
            obl = sorted(set((a, b + ' (' + c + ')') for a, b, c in re.findall(r"failed obligation: (\[.*?\]|implicit) in (.*?) \((.*?)\)\s*$", out, re.M)))
            concrete = 'no-failing-input-found' not in out and 'VIOLATION' in out
            und = [ln for ln in out.splitlines() if ln.startswith('UNDECIDED')]
            res = {'seed': sid, 'property': prop, 'rc': p.returncode,
                   'outcome': {0: 'MISSED (exit 0)', 1: 'caught', 2: 'undecided (exit 2)'}.get(p.returncode, 'rc=%d' % p.returncode),
                   'obligations': ['%s in %s' % (a, b) for a, b in obl][:4], 'concrete_input': concrete,
                   'undecided_reason': (und[0][:300] if und else None)}
        res['summary'] = meta.get('summary', '')[:260]
        json.dump(res, open(os.path.join(d, 'result.json'), 'w'), indent=1)
        rows.append(res)
        print('%s -> %s %s' % (sid, res['outcome'], '; '.join(res['obligations'])[:200]), file=sys.stderr)
    print('| seed | change (author\'s summary, shortened) | outcome of `./check %s` | failed obligation(s) |' % '<prop>')
    print('|------|------------------------------------|--------------------------|----------------------|')
    for r in rows:
        obl = '<br>'.join(x.replace('|', '\\|') for x in r['obligations']) or (r.get('undecided_reason') or '').replace('|', '\\|')
        extra = ' + concrete input' if r.get('concrete_input') else ''
        print('| %s | %s | %s%s | %s |' % (r['seed'], r['summary'].replace('|', '\\|').replace('\n', ' '), r['outcome'], extra, obl))
    return 0


if __name__ == '__main__':
    sys.exit(main())
