#!/usr/bin/env python3
"""Run every seeded change against the check(s) of its property and record the outcome.

For each /verif/seeded/<id>/: apply patch.diff to /repo, run ./check <prop> --no-probe for the property the seed
was written against (evidence redirected), undo the patch, and write seeded/<id>/result.json.  Prints a markdown table."""
import json
import os
import re
import subprocess
import sys

VERIF = os.path.dirname(os.path.dirname(os.path.abspath(__file__)))


def main():
    args = sys.argv[1:]
    # --copy <dir>: patch a scratch copy of the committed tree instead of /repo (KV_REPO), so that several runs can go in
    # parallel, each from its own snapshot of /verif; --shard i/n: take every n-th seed
    copy, shard = None, None
    if '--copy' in args:
        copy = args[args.index('--copy') + 1]
        del args[args.index('--copy'):args.index('--copy') + 2]
    if '--shard' in args:
        i, n = args[args.index('--shard') + 1].split('/')
        shard = (int(i), int(n))
        del args[args.index('--shard'):args.index('--shard') + 2]
    want = args
    rows = []
    count = -1
    for sid in sorted(os.listdir(os.path.join(VERIF, 'seeded'))):
        d = os.path.join(VERIF, 'seeded', sid)
        if not os.path.isfile(os.path.join(d, 'patch.diff')):
            continue
        if want and sid not in want:
            if os.path.isfile(os.path.join(d, 'result.json')):
                rows.append(json.load(open(os.path.join(d, 'result.json'))))
            continue
        prop = sid.split('-')[0]
        meta = json.load(open(os.path.join(d, 'meta.json')))
        count += 1
        if shard and count % shard[1] != shard[0]:
            continue
        env = dict(os.environ, KV_EVIDENCE_DIR='/tmp/seed_ev%s' % (shard[0] if shard else ''))
        if copy:
            subprocess.run('rm -rf %s && mkdir -p %s && git -C /repo archive HEAD | tar -x -C %s' % (copy, copy, copy), shell=True, check=True)
            r = subprocess.run(['patch', '-p1', '-s', '-d', copy, '-i', os.path.join(d, 'patch.diff')])
            env['KV_REPO'] = copy
        else:
            st = subprocess.run(['git', '-C', '/repo', 'status', '--porcelain'], stdout=subprocess.PIPE, text=True).stdout.strip()
            if st:
                print('refusing: /repo is not clean', file=sys.stderr)
                return 2
            r = subprocess.run(['git', '-C', '/repo', 'apply', os.path.join(d, 'patch.diff')])
        if r.returncode:
            res = {'seed': sid, 'property': prop, 'rc': None, 'outcome': 'patch does not apply', 'obligations': []}
        else:
            try:
                p = subprocess.run([os.path.join(VERIF, 'check'), prop, '--no-probe'], env=env,
                                   stdout=subprocess.PIPE, stderr=subprocess.STDOUT, text=True)
            finally:
                if not copy:
                    subprocess.run(['git', '-C', '/repo', 'checkout', '--', '.'])
            out = p.stdout
            obl = sorted(set((a, b + ' (' + c + ')') for a, b, c in re.findall(r"failed obligation: (\[.*?\]|implicit) in (.*?) \((.*?)\)\s*$", out, re.M)))
            concrete = 'no-failing-input-found' not in out and 'VIOLATION' in out
            und = [ln for ln in out.splitlines() if ln.startswith('UNDECIDED')]
            res = {'seed': sid, 'property': prop, 'rc': p.returncode,
                   'outcome': {0: 'MISSED (exit 0)', 1: 'caught', 2: 'undecided (exit 2)'}.get(p.returncode, 'rc=%d' % p.returncode),
                   'obligations': ['%s in %s' % (a, b) for a, b in obl][:4], 'concrete_input': concrete,
                   'undecided_reason': (und[0][:300] if und else None)}
        res['summary'] = meta.get('summary', '')[:260]
        json.dump(res, open(os.path.join(d, 'result.json'), 'w'), indent=1)
        rows.append(res)
        print('%s -> %s %s' % (sid, res['outcome'], '; '.join(res['obligations'])[:200]), file=sys.stderr)
    print('| seed | change (author\'s summary, shortened) | outcome of `./check %s` | failed obligation(s) |' % '<prop>')
    print('|------|------------------------------------|--------------------------|----------------------|')
    for r in rows:
        obl = '<br>'.join(x.replace('|', '\\|') for x in r['obligations']) or (r.get('undecided_reason') or '').replace('|', '\\|')
        extra = ' + concrete input' if r.get('concrete_input') else ''
        print('| %s | %s | %s%s | %s |' % (r['seed'], r['summary'].replace('|', '\\|').replace('\n', ' '), r['outcome'], extra, obl))
    return 0




def render_into_design():
    """Rewrites the table between the seed-table markers of DESIGN.md from seeded/*/result.json."""
    rows = []
    for sid in sorted(os.listdir(os.path.join(VERIF, 'seeded'))):
        p = os.path.join(VERIF, 'seeded', sid, 'result.json')
        if os.path.isfile(p):
            rows.append(json.load(open(p)))
    out = ["| seed | change (author's summary, shortened) | `./check <prop>` | failed obligation(s) / reason |", '|------|------|------|------|']
    for r in rows:
        summ = r['summary'].replace('|', '\\|').replace('\n', ' ')
        summ = summ[:170] + ('…' if len(summ) > 170 else '')
        obl = []
        for x in r['obligations'][:2]:
            m = re.match(r"(\[.*?\]|implicit) in (.*)$", x)
            lab, where = m.group(1), m.group(2)
            lab = lab.strip("[]'") if lab != 'implicit' else 'unlabelled safety obligation'
            obl.append('`%s` in %s' % (lab.split(':')[-1] if ':' in lab else lab, where.split('::', 1)[-1]))
        if not obl:
            obl = [(r.get('undecided_reason') or '')[:140]]
        extra = ' + concrete input' if r.get('concrete_input') else ''
        out.append('| %s | %s | %s%s | %s |' % (r['seed'], summ, r['outcome'], extra, '<br>'.join(o.replace('|', '\\|') for o in obl)))
    tab = '\n'.join(out)
    p = os.path.join(VERIF, 'DESIGN.md')
    s = open(p).read()
    s = re.sub(r'<!-- seed table:.*?<!-- end seed table -->',
               lambda m_: '<!-- seed table: generated by tools/seed_table.py from seeded/*/result.json -->\n' + tab + '\n<!-- end seed table -->', s, flags=re.S)
    open(p, 'w').write(s)
    print('%d seeds: %d caught, others: %s' % (len(rows), sum(1 for r in rows if r['outcome'] == 'caught'), [r['seed'] for r in rows if r['outcome'] != 'caught']))


if __name__ == '__main__':
    if sys.argv[1:] == ['--render']:
        render_into_design()
        sys.exit(0)
    sys.exit(main())
