#!/bin/sh
# dev helper: verify a single function of a generated unit with expanded errors
# usage: tools/vf.sh <unit> <module::path> <function> [extra flags]
U=$1; M=$2; F=$3; shift 3
cd /verif/gen && verus $U.rs --no-trait-conflicts --rlimit 60 --num-threads 16 --multiple-errors 10 --verify-only-module "$M" --verify-function "$F" --expand-errors "$@" 2>&1 | grep -v "^$" | grep -v conda | awk '/^warning/{p=0} /^error|^note|^verification/{p=1} p'
