#!/bin/sh
# run_seeded.sh <seed-dir> <prop>...   applies the seeded patch to /repo, runs the checks, undoes it.
d=$(cd "$1" && pwd); shift
git -C /repo apply "$d/patch.diff" || { echo "patch does not apply"; exit 9; }
for p in "$@"; do
  KV_EVIDENCE_DIR=/tmp/seed_ev /verif/check $p --no-probe > /tmp/seed_run.out 2>&1; rc=$?
  echo "seed $(basename $d) check $p -> rc=$rc : $(grep -E 'VIOLATION|UNDECIDED|^OK' /tmp/seed_run.out | head -2 | cut -c1-220 | tr '\n' ' ')"
  grep "failed obligation" /tmp/seed_run.out | head -3 | cut -c1-260
done
git -C /repo checkout -- .
