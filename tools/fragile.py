#!/usr/bin/env python3
"""Which labelled clauses need the anchored proof hints of their function?

Every unit is woven from the UNCHANGED tree with all anchored proof hints switched off (weave.FORCE_HINTS_OFF) and
verified once.  For each function that has such hints the labelled obligations that now fail are recorded in
contracts/fragile.json ('*' when an unlabelled obligation fails or the function runs out of resources).  The check
uses the file in one situation only: a change to /repo has destroyed the anchor of a hint, the function was rebuilt
without its hints (weave.HintLost), and an obligation of it fails.  If the failed clause is NOT in the file it is
proved without hints on the unchanged tree, so the lost hints are not the reason and the failure is reported;
otherwise the run is undecided.  Regenerate after every change to the contracts: python3 tools/fragile.py"""
import json
import os
import sys

sys.path.insert(0, os.path.dirname(os.path.abspath(__file__)))
os.environ['KV_MULTIPLE_ERRORS'] = '200'
os.environ['KV_NO_CACHE'] = '1'
import kv
import weave
import dev

UNITS = ['u1_planner', 'u2_trigger', 'u3_hash', 'u6_stack']


def main():
    if kv.REPO == '/repo':
        import subprocess
        st = subprocess.run(['git', '-C', '/repo', 'status', '--porcelain', '--', 'src'], stdout=subprocess.PIPE, text=True).stdout
        if st.strip():
            print('refusing: /repo/src has uncommitted changes'); return 2
    out = {}
    for name in UNITS:
        weave.FORCE_EXCEPT.clear()
        whole = set()
        for _round in range(10):
            weave.FORCE_HINTS_OFF = True
            weave.HINTED.clear()
            try:
                u = dev.load_unit(name)
            finally:
                weave.FORCE_HINTS_OFF = False
            hinted = sorted(weave.HINTED)
            u.hints_off = {}
            u.assemble()
            u.write('__nohints')
            u.erasure_check()
            res = kv.run_verus(u.gen_path, flags=u.verus_flags, rlimit=30)
            fails, und = kv.classify(u, res)
            # compile errors: the contract / invariants of that function mention ghost bindings declared by its hints
            broken = set()
            for d in res['diags']:
                if d.get('level') != 'error' or any(v in d.get('message', '') for v in kv.VERIF_FAIL):
                    continue
                for sp in d.get('spans', []):
                    if not sp.get('is_primary'):
                        continue
                    l0 = sp['line_start'] - 1
                    best = None
                    for lo, hi, v in u.fn_spans:
                        if lo <= l0 <= hi and (best is None or hi - lo < best[0]):
                            best = (hi - lo, v.name())
                    if best:
                        broken.add(best[1])
            broken -= weave.FORCE_EXCEPT
            if not broken:
                break
            weave.FORCE_EXCEPT |= broken
            whole |= broken
        per = {h: [] for h in hinted}
        for h in whole:
            per[h] = ['*']
        for f in fails:
            fn = f['fn']
            if fn not in per:
                print('NOTE %s: failure outside hinted functions: %s %s' % (name, fn, f['labels']))
                per.setdefault(fn, [])
            names = [l.split(':', 1)[1] if ':' in l else l for l in f['labels']]
            per[fn] += names if names else ['*']
        import re as _re
        for x in und:
            print('NOTE %s undecided without hints: %s' % (name, x[:300]))
            # attribute by position in the generated file; a limit hit inside a lemma concerns no function under contract
            m = _re.search(_re.escape(os.path.basename(u.gen_path)) + r':(\d+):', x)
            hit = None
            if m:
                l0 = int(m.group(1)) - 1
                for lo, hi, v in u.fn_spans:
                    if lo <= l0 <= hi and (hit is None or hi - lo < hit[0]):
                        hit = (hi - lo, v.name())
            if hit:
                per.setdefault(hit[1], []).append('*')
            elif 'resource limit' not in x:
                for h in hinted:
                    per[h].append('*')
        out[name] = {k: sorted(set(v)) for k, v in sorted(per.items())}
        print('%s: %d hinted functions, %d with fragile clauses, %d entirely' % (name, len(hinted), sum(1 for v in out[name].values() if v), sum(1 for v in out[name].values() if '*' in v)))
        weave.FORCE_EXCEPT.clear()
    out['_contracts_sha'] = kv.contracts_sha()
    json.dump(out, open(os.path.join(kv.VERIF, 'contracts', 'fragile.json'), 'w'), indent=1, sort_keys=True)
    return 0


if __name__ == '__main__':
    sys.exit(main())
