#!/bin/sh
# Offline setup: build the native replay binary once (dependencies come from the local cargo registry).
# The Verus checks themselves need no build step.
set -e
cd "$(dirname "$0")/.."
mkdir -p .cache gen evidence replays
CARGO_NET_OFFLINE=true CARGO_TARGET_DIR="$PWD/.cache/target" cargo build --release --offline -q --manifest-path replay/Cargo.toml || echo "warning: replay binary failed to build; checks still run, counterexample search disabled"
verus --version >/dev/null
