"""Framework core: units (prelude + woven items) -> generated Verus file -> run -> classify."""

import json
import os
import re
import subprocess
import sys
import time

import extract
import rustlex
import weave
from extract import ExtractError

VERIF = os.path.dirname(os.path.dirname(os.path.abspath(__file__)))
REPO = os.environ.get('KV_REPO', '/repo')
GEN = os.path.join(VERIF, 'gen')


class Undecided(Exception):
    """Tool limit / lost anchor / unsupported construct: exit 2, never an alarm."""


class Unit:
    def __init__(self, name, repo=None, probe=False):
        self.name = name
        self.repo = repo or REPO
        self.parts = []          # ('text', str, origin) | ('woven', Woven)
        self.verus_flags = []
        self.features = ['allocator_api']
        self.probe = probe
        self.dropped = []        # human-readable list of what extraction dropped
        self.fns = []            # Woven views under contract
        self.trusted_notes = []

    # ---- building ------------------------------------------------------------------
    def text(self, s, origin='glue'):
        self.parts.append(('text', s if s.endswith('\n') else s + '\n', origin))

    def prelude(self, fname):
        p = os.path.join(VERIF, 'contracts', 'prelude', fname)
        self.parts.append(('text', open(p).read(), 'prelude/' + fname))

    def item(self, relpath, path, props=()):
        src, ct = extract.load(self.repo, relpath)
        it = extract.locate(ct, path)
        w = weave.Woven(src, it, relpath, [relpath] + list(path), list(props))
        self.parts.append(('woven', w))
        return w

    def under_contract(self, w, props=None):
        w.under_contract = True
        if props is not None:
            w.props = list(props)
        self.fns.append(w)
        return w

    def inline_new_helpers(self, table):
        """T15: a function or method of a woven file that is *called* from code under contract but has no contract
        (it is not part of the extraction) is inlined at its call sites when that is mechanically possible;
        otherwise the run is undecided.  Done once, after all contracts of the unit are woven."""
        n = 0
        roots = [part[1] for part in self.parts if part[0] == 'woven']
        extracted = {}   # per source file: names that are part of the generated text (woven items, kept members, views under contract)
        for w in roots:
            names = extracted.setdefault(w.relpath, set())
            names.add(w.item.name)
            if w.item.kind in ('impl', 'trait'):
                dropped = set(r.rule.split(':', 1)[1] for r in w.repls if r.rule.startswith('D-item:'))
                names.update(m.name for m in w.members() if m.name not in dropped)
        for v in self.fns:
            extracted.setdefault(v.relpath, set()).add(v.item.name)
        for w in roots:
            src, ct = extract.load(self.repo, w.relpath)
            top = [it for it in extract.parse_items(ct, 0, len(ct) - 1) if it.kind == 'fn' and it.name not in extracted[w.relpath]]
            for it in top:
                n += w.inline_calls(it, 'fn', table)
            if w.item.kind == 'impl':
                for m in w.members():
                    if m.kind == 'fn' and m.name not in extracted[w.relpath]:
                        n += w.inline_calls(m, 'method', table)
        # constants of a woven file that code under contract mentions but the extraction does not know (new since the
        # contracts were written) are copied verbatim in front of the first item that mentions them
        emitted = set()
        for w in roots:
            src, ct = extract.load(self.repo, w.relpath)
            for it in extract.parse_items(ct, 0, len(ct) - 1):
                if it.kind != 'const' or it.name in extracted[w.relpath] or (w.relpath, it.name) in emitted:
                    continue
                if any(ct[i][0] == 'id' and ct[i][1] == it.name for i in range(w.lo, w.hi + 1)
                       if not any(r.start <= ct[i][2] < r.end for r in w.repls)):
                    w._ins(ct[w.lo][2], src[ct[it.lo][2]:ct[it.hi][3]] + '\n', None)
                    emitted.add((w.relpath, it.name))
                    self.dropped.append('T15: constant `%s` of %s (not part of the extraction) is copied verbatim next to the code that uses it' % (it.name, w.relpath))
        if n:
            self.dropped.append('T15: %d call(s) of helper functions that have no contract were inlined at the call site '
                                '(`{ let (params,) = (args,); let kv_ret: R = <helper body>; kv_ret }`)' % n)
        return n

    # ---- assembling -----------------------------------------------------------------
    def assemble(self):
        head = ''.join('#![feature(%s)]\n' % f for f in self.features)
        head += '#![allow(unused_imports, dead_code, unused_variables, unused_mut, unused_parens, unused_braces, unreachable_code, non_snake_case, unused_assignments)]\n'
        head += 'use vstd::prelude::*;\nverus! {\n'
        out = [head]
        line = head.count('\n')
        self.label_spans = []     # (lo, hi, label, origin)
        self.fn_spans = []        # (lo, hi, Woven)
        self.erasure = []         # (Woven root, rendered text)
        lab_re = re.compile(r'//\s*@L\s+(.*)$')
        for part in self.parts:
            if part[0] == 'text':
                txt = part[1]
                for k, ln in enumerate(txt.split('\n')):
                    m = lab_re.search(ln)
                    if m:
                        self.label_spans.append((line + k, line + k, m.group(1).strip(), part[2]))
                out.append(txt)
                line += txt.count('\n')
            else:
                w = part[1]
                txt, spans, pos2line = render_with_map(w)
                if self.probe:
                    n_dup = 0
                    for v in [w] + w.subs:
                        if v.under_contract and getattr(v, 'probe_ok', True) and v.item.body_range():
                            a = pos2line.off(v.ct[v.lo][2])
                            b = pos2line.off(v.ct[v.hi][2]) + len(v.ct[v.hi][1])
                            dup = getattr(v, 'probe_prefix', '') + make_probe(txt[a:b], v.item.name)
                            w._ins(v.ct[v.hi][3], '\n' + dup + '\n', 'VACUITY::' + v.name())
                            n_dup += 1
                    if n_dup:
                        txt, spans, pos2line = render_with_map(w)
                for lo, hi, lab in spans:
                    self.label_spans.append((line + lo, line + hi, lab, w.name()))
                # `// @L` labels inside woven text (contracts of lifted closures, const blocks)
                for k, ln in enumerate(txt.split('\n')):
                    m = lab_re.search(ln)
                    if m and not any(a <= line + k <= b for a, b, _, _ in self.label_spans if a == line + k):
                        self.label_spans.append((line + k, line + k, m.group(1).strip(), w.name()))
                views = [w] + w.subs
                for v in views:
                    if v.under_contract:
                        lo = pos2line(v.ct[v.item.lo][2])
                        hi = pos2line(v.ct[v.hi][3])
                        self.fn_spans.append((line + lo, line + hi, v))
                self.erasure.append((w, txt))
                if not txt.endswith('\n'):
                    txt += '\n'
                out.append(txt)
                line += txt.count('\n')
        out.append('\n} // verus!\nfn main() {}\n')
        self.gen_text = ''.join(out)
        return self.gen_text

    def erasure_check(self):
        """Re-derive each source item from the woven text; any mismatch is a tool bug."""
        n_tok = 0
        for w, txt in self.erasure:
            got = weave.erase(txt, w.repl_table)
            want = w.original_tokens()
            if got != want:
                k = 0
                while k < min(len(got), len(want)) and got[k] == want[k]:
                    k += 1
                raise Undecided('erasure check failed for %s at token %d: woven has %r, source has %r' % (
                    w.name(), k, got[k:k + 6], want[k:k + 6]))
            n_tok += len(want)
        return n_tok

    def transformations(self):
        """Replacement rules actually applied, for evidence: {rule: count}."""
        res = {}
        for w, _ in self.erasure:
            for rule, orig, text in w.repl_table:
                key = rule.split(':')[0]
                res[key] = res.get(key, 0) + 1
        return res

    def write(self, suffix=''):
        os.makedirs(GEN, exist_ok=True)
        p = os.path.join(GEN, self.name + suffix + '.rs')
        with open(p, 'w') as f:
            f.write(self.gen_text)
        self.gen_path = p
        return p


def make_probe(text, name):
    """A copy of a woven function, renamed, with the extra postcondition `false` (vacuity probe)."""
    text = re.sub(r'/\*\+K\*/|/\*-K\*/|/\*\+R:\d+\*/|/\*-R\*/', '', text)
    toks = rustlex.lex(text)
    ct = rustlex.code(toks)
    i = 0
    while not (ct[i][0] == 'id' and ct[i][1] == 'fn' and ct[i + 1][1] == name):
        i += 1
    name_tok = ct[i + 1]
    # header: up to the body's `{` at depth 0
    depth, j, ens, body = 0, i + 2, None, None
    while j < len(ct):
        t = ct[j]
        if t[0] == 'p' and t[1] in '([':
            j = rustlex.match_close(ct, j)
        elif t[0] == 'p' and t[1] == '{':
            body = t
            break
        elif t[0] == 'id' and t[1] == 'ensures' and ens is None:
            ens = t
        j += 1
    edits = [(name_tok[3], '__vacuity_probe')]
    if ens is not None:
        edits.append((ens[3], ' false,'))
    else:
        edits.append((body[2], ' ensures false, '))
    for pos, ins in sorted(edits, reverse=True):
        text = text[:pos] + ins + text[pos:]
    return text


def render_with_map(w):
    """Render and return a source-byte -> rendered-line mapper."""
    txt, spans = w.render()
    # Rebuild the mapping by replaying the rendering order: we locate each source token of the
    # item in the rendered text sequentially (tokens are unique in order).
    toks = rustlex.lex(txt)
    # positions (in rendered text) of original code tokens: skip inserted/replaced regions
    orig_positions = []
    i, n = 0, len(toks)
    while i < n:
        k, s = toks[i][0], toks[i][1]
        if k == 'bc' and s == '/*+K*/':
            i += 1
            while not (toks[i][0] == 'bc' and toks[i][1] == '/*-K*/'):
                i += 1
            i += 1
            continue
        if k == 'bc' and s.startswith('/*+R:'):
            idx = int(s[5:-2])
            start = toks[i][2]
            while not (toks[i][0] == 'bc' and toks[i][1] == '/*-R*/'):
                i += 1
            i += 1
            for _ in w.repl_table[idx][1]:
                orig_positions.append(start)
            continue
        if k not in ('ws', 'lc', 'bc'):
            orig_positions.append(toks[i][2])
        i += 1
    src_toks = w.ct[w.lo:w.hi + 1]
    if len(orig_positions) != len(src_toks):
        raise Undecided('internal: token map mismatch for %s' % w.name())
    starts = [t[2] for t in src_toks]

    def pos2off(p):
        """Rendered byte offset of the source token that starts at or before source byte p."""
        import bisect
        k = bisect.bisect_right(starts, p) - 1
        if k < 0:
            k = 0
        return orig_positions[k]

    def pos2line(p):
        return txt.count('\n', 0, pos2off(p))
    pos2line.off = pos2off
    return txt, spans, pos2line


# ---- running Verus ---------------------------------------------------------------------

_VERUS_VERSION = None


def _verus_version():
    global _VERUS_VERSION
    if _VERUS_VERSION is None:
        try:
            _VERUS_VERSION = subprocess.run(['verus', '--version'], stdout=subprocess.PIPE, stderr=subprocess.STDOUT, text=True, timeout=60).stdout.strip()
        except Exception as e:   # no version, no cache
            _VERUS_VERSION = 'unknown:%r' % (e,)
    return _VERUS_VERSION


CACHE_DIR = os.path.join(VERIF, '.cache', 'verus')


def run_verus(path, flags=(), rlimit=30, threads=16, log_air=False, timeout=1800):
    """Runs Verus on one generated file.  The verdict for a byte-identical generated file (same flags, same Verus) is
    reused from /verif/.cache/verus: every filesystem property reads the same run of the same unit, so a second check
    on the same tree does not re-prove it.  KV_NO_CACHE=1 disables the reuse.  The generated file itself is always rebuilt
    from /repo's current working tree before this point."""
    import hashlib
    text = open(path, 'rb').read()
    crate = os.path.basename(path)[:-3]
    key = hashlib.sha256(b'\0'.join([text, ' '.join(flags).encode(), str(rlimit).encode(), str(bool(log_air)).encode(),
                                     crate.encode(), _verus_version().encode()])).hexdigest()
    cpath = os.path.join(CACHE_DIR, key + '.json')
    use_cache = os.environ.get('KV_NO_CACHE', '') != '1' and not _verus_version().startswith('unknown')
    if use_cache and os.path.isfile(cpath):
        try:
            res = json.load(open(cpath))
            res['cached'] = True
            res['logdir'] = None
            return res
        except ValueError:
            pass
    res = _run_verus(path, flags, rlimit, threads, log_air, timeout)
    if use_cache and res['rc'] is not None:
        try:
            os.makedirs(CACHE_DIR, exist_ok=True)
            out = dict(res)
            out['oblig_cache'] = count_obligations(res, crate) if log_air else None
            out['cached'] = False
            tmp = cpath + '.%d.tmp' % os.getpid()
            json.dump(out, open(tmp, 'w'))
            os.replace(tmp, cpath)
            res['oblig_cache'] = out['oblig_cache']
        except OSError:
            pass
    return res


def _run_verus(path, flags=(), rlimit=30, threads=16, log_air=False, timeout=1800):
    cmd = ['verus', path, '--output-json', '--time-expanded', '--error-format=json',
           '--rlimit', str(rlimit), '--num-threads', str(threads), '--multiple-errors', os.environ.get('KV_MULTIPLE_ERRORS', '8')] + list(flags)
    logdir = None
    if log_air:
        logdir = path + '.vlog'
        subprocess.run(['rm', '-rf', logdir])
        cmd += ['--log', 'air', '--log-dir', logdir]
    t0 = time.time()
    try:
        p = subprocess.run(cmd, stdout=subprocess.PIPE, stderr=subprocess.PIPE, text=True, timeout=timeout,
                           cwd=os.path.dirname(path))
    except subprocess.TimeoutExpired:
        raise Undecided('verus timed out after %ds on %s' % (timeout, path))
    wall = time.time() - t0
    try:
        js = json.loads(p.stdout) if p.stdout.strip() else {}
    except ValueError:
        js = {}
    diags = []
    other = []
    for ln in p.stderr.splitlines():
        ln = ln.strip()
        if ln.startswith('{'):
            try:
                d = json.loads(ln)
                diags.append(d)
                continue
            except ValueError:
                pass
        if ln:
            other.append(ln)
    return {'cmd': ' '.join(cmd), 'json': js, 'diags': diags, 'stderr_other': other, 'wall': wall,
            'rc': p.returncode, 'logdir': logdir}


VERIF_FAIL = [
    'postcondition not satisfied', 'precondition not satisfied', 'assertion failed',
    'invariant not satisfied', 'loop invariant not satisfied', 'possible arithmetic underflow/overflow',
    'decreases not satisfied', 'possible division by zero', 'possible bit shift underflow/overflow',
    'unreachable', 'recommendation not met', 'index out of bounds', 'could not prove termination',
    'precondition not satisfied', 'requires not satisfied',
]
UNDECIDED_PAT = ['Resource limit', 'rlimit', 'timed out', 'solver', 'unknown']


_FRAGILE = None


def load_fragile():
    """contracts/fragile.json: per unit and function, the labelled clauses that need the anchored proof hints of that
    function ('*': the whole function, e.g. it runs out of resources without them)."""
    global _FRAGILE
    if _FRAGILE is None:
        p = os.path.join(VERIF, 'contracts', 'fragile.json')
        try:
            _FRAGILE = json.load(open(p))
        except (OSError, ValueError):
            _FRAGILE = {}
        if _FRAGILE.get('_contracts_sha') != contracts_sha():
            _FRAGILE = {}   # stale table: nothing is known to be hint-independent (every such failure is undecided)
    return _FRAGILE


def contracts_sha():
    """Fingerprint of everything the table of hint-dependent clauses depends on."""
    import glob
    import hashlib
    h = hashlib.sha256()
    for f in sorted(glob.glob(os.path.join(VERIF, 'contracts', 'units', '*.py')) + glob.glob(os.path.join(VERIF, 'contracts', 'prelude', '*.rs'))
                    + [os.path.join(VERIF, 'tools', 'weave.py'), os.path.join(VERIF, 'tools', 'stubjust.py')]):
        h.update(os.path.basename(f).encode())
        h.update(open(f, 'rb').read())
    return h.hexdigest()


def classify(unit, res):
    """Returns (failures, undecided_reasons).  failure = dict(message, fn, labels, props, line, text)."""
    failures, undecided = [], []
    gen_lines = unit.gen_text.split('\n')
    for d in res['diags']:
        if d.get('level') != 'error':
            continue
        msg = d.get('message', '')
        if msg.startswith('aborting due to') or msg.startswith('could not compile'):
            continue
        is_vf = any(msg.startswith(v) or v in msg for v in VERIF_FAIL)
        if any(u in msg for u in ('Resource limit', 'rlimit')):
            undecided.append('resource limit: ' + (d.get('rendered') or msg)[:400])
            continue
        if not is_vf:
            undecided.append('verus/rustc error: %s' % (d.get('rendered') or msg)[:600])
            continue
        if any(u in msg for u in ('Resource limit', 'rlimit')):
            undecided.append('resource limit: ' + msg)
            continue
        spans = d.get('spans', [])
        labels, origins = [], []
        fnv_best = None
        prim_line = None
        for sp in spans:
            if os.path.basename(sp.get('file_name', '')) != os.path.basename(unit.gen_path):
                continue
            l0, l1 = sp['line_start'] - 1, sp['line_end'] - 1
            if sp.get('is_primary') and prim_line is None:
                prim_line = l0
            splabel = sp.get('label') or ''
            context_only = splabel.startswith('at the end of the function body') or \
                splabel.startswith('at this exit') or splabel.startswith('at this loop exit')
            for lo, hi, lab, origin in unit.label_spans:
                if context_only:
                    break
                if not (l1 < lo or l0 > hi):
                    if lab not in labels:
                        labels.append(lab)
                        origins.append(origin)
            for lo, hi, v in unit.fn_spans:
                if lo <= l0 <= hi and not context_only:
                    cand = (0 if sp.get('is_primary') else 1, hi - lo, lo, hi, v)
                    if fnv_best is None or cand[:2] < fnv_best[:2]:
                        fnv_best = cand
        fnv = (fnv_best[2], fnv_best[3], fnv_best[4]) if fnv_best else None
        props = set()
        for lab in labels:
            head = lab.split(':')[0]
            for tok in head.split():
                if re.match(r'^C\d\d$', tok):
                    props.add(tok)
        is_probe = any('VACUITY' in lab for lab in labels)
        if not props and fnv is not None and not is_probe:
            props = set(fnv[2].props)
        excerpt = ''
        if prim_line is not None:
            a = max(0, prim_line - 2)
            excerpt = '\n'.join(gen_lines[a:prim_line + 3])
        hint_failed = False
        assert_text = None
        if 'KV-HINT' in labels:
            # an `assert` inside an anchored proof hint failed: the hint no longer fits the code (see check.run_unit)
            hint_failed = labels == ['KV-HINT'] and 'assertion failed' in msg
            for sp in spans:
                if sp.get('is_primary') and sp.get('text'):
                    t0 = sp['text'][0]
                    assert_text = ' '.join(' '.join(x['text'] for x in sp['text']).split()) if len(sp['text']) > 1 else t0['text'][t0['highlight_start'] - 1:t0['highlight_end'] - 1]
            labels = [l for l in labels if l != 'KV-HINT']
        f = {'message': msg, 'fn': fnv[2].name() if fnv else None, 'labels': labels, 'hint_failed': hint_failed, 'assert_text': assert_text,
             'props': sorted(props), 'line': (prim_line + 1) if prim_line is not None else None,
             'excerpt': excerpt, 'rendered': d.get('rendered', ''), 'probe': is_probe}
        if fnv is None and not labels:
            undecided.append('unattributed verification failure outside any function under contract: %s' %
                             (d.get('rendered') or msg)[:600])
            continue
        failures.append(f)
    vr = res['json'].get('verification-results', {})
    if not res['json']:
        undecided.append('verus produced no JSON result (rc=%s): %s' % (res['rc'], ' | '.join(res['stderr_other'][:5])))
    elif vr.get('encountered-vir-error'):
        undecided.append('verus reported a VIR error (unsupported construct?)')
    elif not vr.get('success') and not failures and not undecided:
        undecided.append('verus unsuccessful without a classifiable diagnostic')
    for ln in res['stderr_other']:
        if 'rlimit' in ln or 'Resource limit' in ln:
            undecided.append(ln)
    hoff = getattr(unit, 'hints_off', None) or {}
    if hoff:
        fragile = load_fragile().get(unit.name, {})
        kept = []
        for f in failures:
            k = next((k for k in hoff if f['fn'] and f['fn'] == k), None)
            names = [l.split(':', 1)[1] if ':' in l else l for l in f['labels']]
            if k is None or f.get('probe'):
                kept.append(f)
            elif k in fragile and names and '*' not in fragile[k] and not any(n in fragile[k] for n in names):
                # the clause is proved WITHOUT the proof hints on the unchanged tree (contracts/fragile.json, written by
                # tools/fragile.py): its failure does not come from the lost hints
                f['note'] = 'proof hints of this function were dropped (%s); this clause does not depend on them' % hoff[k]
                kept.append(f)
            else:
                undecided.append('proof hints of %s were dropped (%s) and %s (%s) did not go through without them: not attributable'
                                 % (k, hoff[k], f['labels'] or 'an unlabelled obligation', f['message']))
        failures = kept
    return failures, undecided


def count_obligations(res, crate):
    """Per function: number of `assert` statements in the initial-form AIR queries."""
    counts = {}
    if res.get('oblig_cache') is not None:
        return res['oblig_cache']
    if not res.get('logdir') or not os.path.isdir(res['logdir']):
        return counts
    for fn in os.listdir(res['logdir']):
        if not fn.endswith('.air'):
            continue
        cur = None
        for ln in open(os.path.join(res['logdir'], fn), errors='replace'):
            if ln.startswith(';; Function-'):
                m = re.match(r';; Function-(\w+) (.*)$', ln.strip())
                cur = m.group(2) if m and m.group(1) in ('Def', 'Recommend', 'Decl-Check-Recommends') else None
                if m and m.group(1) != 'Def':
                    cur = None
                continue
            if cur and re.match(r'^\s*\(assert\s*$', ln):
                counts[cur] = counts.get(cur, 0) + 1
                # trait-impl methods are named after their Self type: also keyed by the module log they sit in
                mod = fn.split('.air')[0].split(crate + '!')[0]
                key = '%s@%s' % (cur, mod)
                counts[key] = counts.get(key, 0) + 1
    return counts


def fn_times(res):
    out = {}
    smt = res['json'].get('times-ms', {}).get('smt', {})
    for m in smt.get('smt-run-module-times', []):
        for f in m.get('function-breakdown', []):
            out[f['function']] = out.get(f['function'], 0) + f.get('time-micros', 0) / 1e6
    return out


def trusted_scan(text):
    """Mechanical scan of the generated file for assumption-bearing constructs."""
    toks = rustlex.code(rustlex.lex(text))
    res = {'assume': 0, 'admit': 0, 'external_body': [], 'assume_specification': [], 'uninterp': [],
           'axiom': [], 'external_type_specification': []}
    n = len(toks)
    for i, t in enumerate(toks):
        s = t[1]
        if t[0] != 'id':
            continue
        if s in ('assume', 'admit') and i + 1 < n and toks[i + 1][1] == '(':
            res[s] += 1
        elif s == 'assume_specification':
            # name between [ ]
            j = i
            while toks[j][1] != '[':
                j += 1
            k = rustlex.match_close(toks, j)
            res['assume_specification'].append(''.join(x[1] for x in toks[j + 1:k]))
        elif s in ('external_body', 'external_type_specification', 'uninterp'):
            # find next fn/struct name
            j = i
            while j < n and not (toks[j][0] == 'id' and toks[j][1] in ('fn', 'struct', 'enum', 'type')):
                j += 1
            if j + 1 < n:
                res[s].append(toks[j + 1][1])
        elif s == 'fn' and i + 1 < n and toks[i + 1][1].startswith('axiom_'):
            res['axiom'].append(toks[i + 1][1])
    return res
