#!/usr/bin/env python3
"""Regenerate MANIFEST.json from contracts/props.py (claimed checks) and properties.jsonl."""
import json
import os
import sys

sys.path.insert(0, os.path.dirname(os.path.abspath(__file__)))
import check

VERIF = check.VERIF
props = check.load_props()
ids = [json.loads(l)['id'] for l in open(os.path.join(VERIF, 'properties.jsonl'))]
m = {
    'version': 1,
    'setup_cmd': 'cd /verif && sh tools/setup.sh',
    'hooks': {
        'guard': 'kismet_verif',
        'enable': 'none needed: contracts are woven into functions extracted from /repo/src on every run; nothing in /repo is instrumented',
        'baseline_off_cmd': 'cd /repo && cargo test --workspace --no-fail-fast --offline',
        'source_commits': [],
        'add_only': True,
    },
    'engines': [
        {'name': 'kv', 'path': 'tools/', 'serves_properties': sorted(props.PROPS.keys()),
         'kind_free_text': 'extractor + contract weaver + erasure check + Verus runner + obligation classifier (python3); '
                           'native replay/search binary (replay/, Rust) used only to attach concrete failing inputs'},
    ],
    'checks': [],
    'not_applicable': [],
    'notes': 'Every check is `./check <id>`: exit 0 = all obligations discharged, 1 = VIOLATION, 2 = undecided '
             '(lost anchor, unsupported construct, resource limit, vacuous contract) which is never an alarm. Next to the proof every quick check runs a bounded native search of the real crate (differential runs, strace call traces, crash / fault / deletion injection; listed under coverage.bounded, never counted as proved), which can only add a VIOLATION with a concrete failing input.',
}
for pid in ids:
    if pid in props.PROPS:
        c = props.PROPS[pid]
        m['checks'].append({
            'property_id': pid,
            'quick_cmd': './check %s --tier quick' % pid,
            'thorough_cmd': './check %s --tier thorough' % pid,
            'evidence_file': '/verif/evidence/%s.json' % pid,
            'replay_cmd_template': 'cat {path}',
            'engine': 'kv',
            'level_claimed': {'category': 'proof', 'text': c['level_text'], 'design_ref': c.get('design_ref', 'DESIGN.md section 8 ' + pid)},
            'level_note': c['level_note'],
            'technique': c.get('technique', 'contract-based deductive verification (Verus) of functions extracted verbatim from /repo'),
        })
    else:
        m['not_applicable'].append({'property_id': pid, 'reason': props.NOT_CLAIMED.get(pid, 'contracts not completed')})
json.dump(m, open(os.path.join(VERIF, 'MANIFEST.json'), 'w'), indent=1)
print('claimed:', [c['property_id'] for c in m['checks']])

# the table of hint-dependent clauses must match the contracts it was computed from
try:
    import json as _json, kv as _kv
    _fr = _json.load(open(os.path.join(_kv.VERIF, 'contracts', 'fragile.json')))
    if _fr.get('_contracts_sha') != _kv.contracts_sha():
        print('WARNING: contracts/fragile.json is stale (run: python3 tools/fragile.py); until then a failure after a lost proof hint is always UNDECIDED')
except Exception as _e:
    print('WARNING: contracts/fragile.json unreadable: %r' % (_e,))
