#!/usr/bin/env python3
"""False-alarm guard, part two: behaviour-preserving refactorings written by others (harmless/<area>/patch_i.diff).

For each patch: a scratch copy of the committed tree of /repo is patched and EVERY registered check is run against
it (`./check Cxx --no-probe` with KV_REPO pointing at the copy, evidence redirected).  Exit 1 of any check is a false
alarm; exit 2 (undecided) is recorded.  Results go to harmless/<area>/result.json.

usage: harmless_patches.py [--copy DIR] [--shard i/n] [area/patch_i.diff ...]"""
import glob
import json
import os
import subprocess
import sys

VERIF = os.path.dirname(os.path.dirname(os.path.abspath(__file__)))
PROPS = ['C01', 'C02', 'C03', 'C05', 'C06', 'C07', 'C08', 'C09', 'C10', 'C11', 'C12', 'C13', 'C14', 'C15', 'C16', 'C17', 'C18', 'C19', 'C20']


def main():
    args = sys.argv[1:]
    copy, shard = '/tmp/kv_harmless_copy', None
    if '--copy' in args:
        copy = args[args.index('--copy') + 1]
        del args[args.index('--copy'):args.index('--copy') + 2]
    if '--shard' in args:
        i, n = args[args.index('--shard') + 1].split('/')
        shard = (int(i), int(n))
        del args[args.index('--shard'):args.index('--shard') + 2]
    patches = sorted(glob.glob(os.path.join(VERIF, 'harmless', '*', 'patch_*.diff')))
    if args:
        patches = [p for p in patches if any(p.endswith(a) for a in args)]
    alarms = 0
    for k, p in enumerate(patches):
        if shard and k % shard[1] != shard[0]:
            continue
        name = os.path.relpath(p, os.path.join(VERIF, 'harmless'))
        subprocess.run('rm -rf %s && mkdir -p %s && git -C /repo archive HEAD | tar -x -C %s' % (copy, copy, copy), shell=True, check=True)
        r = subprocess.run(['patch', '-p1', '-s', '-d', copy, '-i', p])
        if r.returncode:
            print('BROKEN    %s: patch does not apply' % name)
            continue
        env = dict(os.environ, KV_REPO=copy, KV_EVIDENCE_DIR='/tmp/harmless_ev%s' % (shard[0] if shard else ''))
        res = {}
        for prop in PROPS:
            q = subprocess.run([os.path.join(VERIF, 'check'), prop, '--no-probe'], env=env, stdout=subprocess.PIPE, stderr=subprocess.STDOUT, text=True)
            lines = [ln for ln in q.stdout.splitlines() if ln.startswith(('VIOLATION', 'UNDECIDED', '  failed obligation'))]
            res[prop] = {'rc': q.returncode, 'lines': [ln[:300] for ln in lines[:4]]}
        bad = sorted(pp for pp, v in res.items() if v['rc'] == 1)
        und = sorted(pp for pp, v in res.items() if v['rc'] not in (0, 1))
        json.dump(res, open(p[:-5] + '.result.json', 'w'), indent=1)
        if bad:
            alarms += 1
            print('ALARM     %s: %s %s' % (name, bad, res[bad[0]]['lines'][:2]))
        elif und:
            print('undecided %s: %s %s' % (name, und, res[und[0]]['lines'][:1]))
        else:
            print('verified  %s' % name)
        sys.stdout.flush()
    subprocess.run(['rm', '-rf', copy])
    print('harmless patches: %d false alarm(s)' % alarms)
    return 1 if alarms else 0


if __name__ == '__main__':
    sys.exit(main())
