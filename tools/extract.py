"""Locate Rust items by structural path in /repo's current working tree.

A path is a list of steps; each step is a string:
    'fn NAME' | 'impl TYPE' | 'impl TRAIT for TYPE' | 'trait NAME' | 'struct NAME'
    | 'enum NAME' | 'const NAME' | 'static NAME' | 'type NAME' | 'mod NAME'
Items guarded by a cfg(...) attribute that is false under CFG_TRUE are skipped
(so `#[cfg(test)]` items are invisible and of two cfg-alternatives the one that is
compiled on linux is chosen)."""

import rustlex
from rustlex import match_close


class ExtractError(Exception):
    """Anchor lost / item not found: the checks report UNDECIDED (exit 2)."""


CFG_TRUE = {('unix',), ('target_family', '"unix"'), ('target_os', '"linux"')}

ITEM_KW = {'fn', 'impl', 'trait', 'struct', 'enum', 'const', 'static', 'type', 'mod', 'use',
           'macro_rules', 'union', 'extern'}
QUAL = {'pub', 'unsafe', 'async', 'default'}


def eval_cfg(ct, i, end):
    """Evaluate a cfg predicate over code tokens ct[i:end]. Returns (value, next_index)."""
    t = ct[i]
    if t[0] == 'id' and i + 1 < end and ct[i + 1][1] == '(' and t[1] in ('all', 'any', 'not'):
        close = match_close(ct, i + 1)
        vals = []
        j = i + 2
        while j < close:
            v, j = eval_cfg(ct, j, close)
            vals.append(v)
            if j < close and ct[j][1] == ',':
                j += 1
        if t[1] == 'all':
            return all(vals), close + 1
        if t[1] == 'any':
            return any(vals), close + 1
        return (not vals[0]), close + 1
    if t[0] == 'id':
        if i + 2 < end and ct[i + 1][1] == '=':
            return ((t[1], ct[i + 2][1]) in CFG_TRUE), i + 3
        return ((t[1],) in CFG_TRUE), i + 1
    raise ExtractError('cannot evaluate cfg at byte %d' % t[2])


class Item:
    def __init__(self, kind, name, ct, lo, hi, attrs_lo, for_type=None):
        self.kind, self.name = kind, name
        self.ct = ct            # code tokens of the whole file
        self.lo, self.hi = lo, hi      # token index range [lo, hi] of the item proper (from vis/kw)
        self.attrs_lo = attrs_lo       # token index of first attribute (== lo if none)
        self.for_type = for_type

    def body_range(self):
        """(open_idx, close_idx) of the item's `{...}` body, or None."""
        i = self.lo
        depth = 0
        while i <= self.hi:
            t = self.ct[i]
            if t[0] == 'p':
                if t[1] in '([':
                    i = match_close(self.ct, i)
                elif t[1] == '{':
                    return i, match_close(self.ct, i)
                elif t[1] == ';':
                    return None
            i += 1
        return None


def parse_items(ct, lo, hi):
    """Items among code tokens ct[lo:hi] at nesting depth 0."""
    items = []
    i = lo
    while i < hi:
        attrs_lo = i
        live = True
        # attributes
        while i < hi and ct[i][1] == '#':
            j = i + 1
            if ct[j][1] == '!':
                j += 1
            if ct[j][1] != '[':
                break
            close = match_close(ct, j)
            if ct[j + 1][1] == 'cfg' and ct[j + 2][1] == '(':
                v, _ = eval_cfg(ct, j + 3, match_close(ct, j + 2))
                live = live and v
            if ct[j + 1][1] == 'test':
                live = False
            i = close + 1
        if i >= hi:
            break
        start = i
        # qualifiers
        while i < hi and (ct[i][1] in QUAL or (ct[i][1] == 'const' and ct[i + 1][1] in ('fn', 'unsafe'))
                          or (ct[i][1] == 'extern' and ct[i + 1][0] == 'str')):
            if ct[i][1] == 'pub' and ct[i + 1][1] == '(':
                i = match_close(ct, i + 1) + 1
            elif ct[i][1] == 'extern':
                i += 2
            else:
                i += 1
        kw = ct[i][1] if i < hi else None
        if kw not in ITEM_KW:
            # not an item (statement inside a fn body, or macro invocation): skip one token tree
            if ct[start][0] == 'p' and ct[start][1] in '([{':
                i = match_close(ct, start) + 1
            else:
                i = start + 1
            continue
        name, for_type = None, None
        j = i + 1
        if kw == 'impl':
            # skip generics
            if ct[j][1] == '<':
                j = skip_angles(ct, j)
            # collect header idents up to `{` / where
            hdr = []
            k = j
            while ct[k][1] not in ('{', 'where'):
                if ct[k][1] == '<':
                    k = skip_angles(ct, k)
                    continue
                hdr.append(ct[k][1])
                k += 1
            if 'for' in hdr:
                f = hdr.index('for')
                name = last_ident(hdr[:f])
                for_type = last_ident(hdr[f + 1:])
            else:
                name = last_ident(hdr)
        else:
            if kw == 'macro_rules':
                j += 1
            name = ct[j][1]
        # find end
        k = i
        end = None
        while k < hi:
            t = ct[k]
            if t[0] == 'p' and t[1] in '([':
                k = match_close(ct, k)
            elif t[0] == 'p' and t[1] == '{':
                k = match_close(ct, k)
                if kw in ('fn', 'impl', 'trait', 'mod', 'enum', 'union', 'macro_rules', 'extern') or \
                        (kw == 'struct'):
                    end = k
                    break
            elif t[0] == 'p' and t[1] == ';':
                end = k
                break
            k += 1
        if end is None:
            raise ExtractError('unterminated item at byte %d' % ct[start][2])
        if live:
            items.append(Item(kw, name, ct, start, end, attrs_lo, for_type))
        i = end + 1
    return items


def last_ident(words):
    ids = [w for w in words if w and (w[0].isalpha() or w[0] == '_') and w not in ('dyn', 'mut')]
    return ids[-1] if ids else None


def skip_angles(ct, i):
    """ct[i] == '<'; returns index after the matching '>' (ignores '->')."""
    depth = 0
    while True:
        t = ct[i][1]
        if t == '<':
            depth += 1
        elif t == '>' and ct[i - 1][1] != '-':
            depth -= 1
            if depth == 0:
                return i + 1
        elif t in '([':
            i = match_close(ct, i)
        i += 1


def find_fn_anywhere(ct, lo, hi, name):
    """First `fn NAME` at any depth inside ct[lo:hi] (nested helper fns in bodies)."""
    for i in range(lo, hi):
        if ct[i][1] == 'fn' and ct[i][0] == 'id' and ct[i + 1][1] == name:
            # compute its end
            its = parse_items(ct, i, hi)
            if its and its[0].kind == 'fn' and its[0].name == name:
                # include attributes just before
                it = its[0]
                # walk back over qualifiers and attributes (cfg-aware selection)
                s = i
                while s - 1 >= lo and ct[s - 1][1] in QUAL | {'const'}:
                    s -= 1
                a = s
                live = True
                while a - 1 >= lo and ct[a - 1][1] == ']':
                    # find matching '['
                    d, b = 0, a - 1
                    while True:
                        if ct[b][1] == ']':
                            d += 1
                        elif ct[b][1] == '[':
                            d -= 1
                            if d == 0:
                                break
                        b -= 1
                    if ct[b - 1][1] != '#':
                        break
                    if ct[b + 1][1] == 'cfg':
                        v, _ = eval_cfg(ct, b + 3, match_close(ct, b + 2))
                        live = live and v
                    a = b - 1
                if not live:
                    continue
                it.lo, it.attrs_lo = s, a
                return it
    return None


def locate(ct, path):
    lo, hi = 0, len(ct)
    item = None
    for depth, step in enumerate(path):
        words = step.split()
        kind = words[0]
        found = None
        if item is not None and item.kind == 'fn':
            if kind != 'fn':
                raise ExtractError('only fn items can be looked up inside a fn: %s' % step)
            found = find_fn_anywhere(ct, lo, hi, words[1])
        else:
            for it in parse_items(ct, lo, hi):
                if it.kind != kind:
                    continue
                if kind == 'impl':
                    if 'for' in words:
                        if it.for_type == words[3] and it.name == words[1]:
                            found = it
                            break
                    elif it.for_type is None and it.name == words[1]:
                        found = it
                        break
                elif it.name == words[1]:
                    found = it
                    break
        if found is None:
            raise ExtractError('item not found: %s (step %r)' % (' :: '.join(path), step))
        item = found
        br = item.body_range()
        if br:
            lo, hi = br[0] + 1, br[1]
    return item


_cache = {}


def load(repo, relpath):
    key = (repo, relpath)
    if key not in _cache:
        src = open('%s/%s' % (repo, relpath), encoding='utf-8').read()
        ct = rustlex.code(rustlex.lex(src))
        _cache[key] = (src, ct)
    return _cache[key]
