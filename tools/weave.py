"""Weave contracts into items extracted verbatim from /repo.

Every byte of the woven item is either (a) copied from the source item, (b) part of
an *insertion* chunk, delimited by the marker comments  /*+K*/ ... /*-K*/ , or (c)
part of a *replacement* chunk  /*+R:<rule>#<n>*/ new text /*-R*/  whose original
tokens are recorded under (<rule>, <n>).  erase() undoes (b) and (c) on the woven
text independently of how it was produced, and the caller compares the result with
the freshly lexed source item."""

import re
import rustlex
from rustlex import match_close
from extract import ExtractError, skip_angles


class Chunk:
    def __init__(self, pos, text, label=None, order=0, hint=False):
        self.pos, self.text, self.label, self.order, self.hint = pos, text, label, order, hint


class Repl:
    def __init__(self, start, end, text, rule):
        self.start, self.end, self.text, self.rule = start, end, text, rule


class HintLost(Exception):
    """The anchor of a proof hint (ghost / proof-only text) is gone.  The unit is rebuilt with the proof hints of that
    function switched off: if the function still verifies, nothing was lost; if it does not, the failure is not
    attributable (reported as undecided, never as a violation)."""

    def __init__(self, fn, msg):
        Exception.__init__(self, msg)
        self.fn, self.msg = fn, msg


HINTS_OFF = {}     # function name -> message of the lost anchor (filled by dev.load_unit's retry loop)
FORCE_HINTS_OFF = False   # tools/fragile.py: weave every function without its anchored proof hints
FORCE_EXCEPT = set()      # ... except these (their contracts mention ghost bindings that the hints declare)
DROP_ASSERTS = {}         # function name -> [asserted expressions to strip from its hints] (dev.verify_unit: a hint assertion failed)
DROPPED_ASSERTS = set()   # (function name, expression) actually stripped while weaving
HINTED = set()            # names of functions that have anchored proof hints (filled while weaving)
_HINT_RE = re.compile(r'^\s*(proof\s*\{|let\s+ghost\b|assert\b|broadcast\s+use\b)')


def is_hint(text):
    """Proof-only text: ghost bindings, proof blocks, asserts, broadcast use.  Nothing executable."""
    return bool(_HINT_RE.match(text)) and 'let mut ' not in text and 'Tracked(' not in text.split('proof')[0]


class Woven:
    """One extracted item plus the edits applied to it."""

    def __init__(self, src, item, relpath, path, props, root=None):
        self.src, self.item, self.relpath, self.path, self.props = src, item, relpath, path, props
        self.ct = item.ct
        self.lo, self.hi = item.attrs_lo, item.hi
        self.root = root or self
        if root is None:
            self.chunks, self.repls = [], []
            self._seq = 0
            self.subs = []
            self.fn_label_spans = []
        else:
            self.chunks, self.repls = root.chunks, root.repls
        self.notes = []
        self.under_contract = False

    def sub(self, steps, props=None):
        """A view on a nested item (e.g. a method of this impl/trait, or a nested fn)."""
        import extract
        br = self.item.body_range()
        it = None
        lo, hi = br[0] + 1, br[1]
        cur = self.item
        for step in steps:
            words = step.split()
            if cur.kind == 'fn':
                it = extract.find_fn_anywhere(self.ct, lo, hi, words[1])
            else:
                it = None
                for cand in extract.parse_items(self.ct, lo, hi):
                    if cand.kind == words[0] and cand.name == words[1]:
                        it = cand
                        break
            if it is None:
                raise ExtractError('%s: nested item %r not found' % (self.name(), step))
            cur = it
            b = it.body_range()
            if b:
                lo, hi = b[0] + 1, b[1]
        v = Woven(self.src, it, self.relpath, self.path + list(steps), props or self.props, root=self.root)
        self.root.subs.append(v)
        return v

    def members(self):
        import extract
        br = self.item.body_range()
        return extract.parse_items(self.ct, br[0] + 1, br[1])

    def drop_members_except(self, keep):
        """D-item: drop every member item of this impl/trait whose name is not in keep."""
        dropped = []
        for m in self.members():
            if m.name not in keep:
                # start right after the previous code token so that the item's doc comments go too
                self.repls.append(Repl(self.ct[m.attrs_lo - 1][3], self.ct[m.hi][3], '', 'D-item:' + str(m.name)))
                dropped.append(m.name)
        return dropped

    # ---- token helpers -------------------------------------------------------------
    def name(self):
        return '::'.join(self.path)

    def _find(self, pattern, nth=0, lo=None, hi=None, count=False):
        pat = rustlex.texts(rustlex.lex(pattern))
        lo = self.item.lo if lo is None else lo
        hi = self.hi if hi is None else hi
        hits = []
        for i in range(lo, hi - len(pat) + 2):
            if all(self.ct[i + k][1] == pat[k] for k in range(len(pat))):
                hits.append(i)
        if count:
            return len(hits)
        if nth == 'only':
            if len(hits) != 1:
                raise ExtractError('%s: anchor %r occurs %d times, expected once' % (self.name(), pattern, len(hits)))
            nth = 0
        if nth == -1:
            if not hits:
                raise ExtractError('%s: anchor %r (last occurrence) not found' % (self.name(), pattern))
            nth = len(hits) - 1
        if len(hits) <= nth:
            raise ExtractError('%s: anchor %r (occurrence %d) not found' % (self.name(), pattern, nth))
        return hits[nth], hits[nth] + len(pat) - 1

    def fn_kw(self):
        i = self.item.lo
        while not (self.ct[i][1] == 'fn' and self.ct[i][0] == 'id'):
            i += 1
        return i

    def params(self):
        """(open_idx, close_idx) of the parameter list."""
        i = self.fn_kw() + 2
        if self.ct[i][1] == '<':
            i = skip_angles(self.ct, i)
        if self.ct[i][1] != '(':
            raise ExtractError('%s: cannot find parameter list' % self.name())
        return i, match_close(self.ct, i)

    def body(self):
        br = self.item.body_range()
        if br is None:
            if self.item.kind == 'fn' and self.ct[self.item.hi][1] == ';':
                return self.item.hi, self.item.hi   # declaration: contract goes before the `;`
            raise ExtractError('%s: item has no body' % self.name())
        return br

    def loops(self):
        """Token indices of loop keywords in the body, in source order (nested fn items included)."""
        o, c = self.body()
        res = []
        for i in range(o + 1, c):
            t = self.ct[i]
            if t[0] == 'id' and t[1] in ('for', 'while', 'loop'):
                # `for` in `impl X for Y` / HRTB `for<'a>` cannot occur in a body except HRTB
                if t[1] == 'for' and self.ct[i + 1][1] == '<':
                    continue
                res.append(i)
        return res

    def loop_body(self, n):
        ls = self.loops()
        if n >= len(ls):
            raise ExtractError('%s: loop #%d not found (%d loops)' % (self.name(), n, len(ls)))
        i = ls[n] + 1
        while True:
            t = self.ct[i]
            if t[0] == 'p' and t[1] in '([':
                i = match_close(self.ct, i)
            elif t[0] == 'p' and t[1] == '{':
                return ls[n], i, match_close(self.ct, i)
            i += 1

    # ---- edits ---------------------------------------------------------------------
    def _ins(self, pos, text, label=None):
        self.root._seq += 1
        if label is None and self.name() in DROP_ASSERTS and is_hint(text):
            for expr in DROP_ASSERTS[self.name()]:
                pat = r'assert\s*\(\s*' + r'\s*'.join(re.escape(tok) for tok in expr.split()) + r'\s*\)\s*;'
                text, n = re.subn(pat, '', text)
                if n:
                    DROPPED_ASSERTS.add((self.name(), expr))
        # anchored proof-only text (see is_hint): a failing assertion inside it is a failure of the hint, not of the code
        self.chunks.append(Chunk(pos, text, label, self.root._seq, hint=(label is None and is_hint(text) and 'proof' in text)))

    def _alt(self, pattern):
        """An anchor may be given as a tuple of spellings (`let x =`, `let mut x =`): the first one present is used."""
        if isinstance(pattern, (tuple, list)):
            for alt in pattern:
                if self._find(alt, count=True) >= 1:
                    return alt
            return pattern[0]
        return pattern

    def insert_before_tok(self, idx, text, label=None):
        self._ins(self.ct[idx][2], text, label)

    def insert_after_tok(self, idx, text, label=None):
        self._ins(self.ct[idx][3], text, label)

    def insert_before(self, pattern, text, nth='only', label=None, optional=False):
        """optional=True: a proof hint that only helps the statement it is anchored on; when that statement is gone
        the hint is dropped (the obligations it helped with are gone too, or fail on their own)."""
        pattern = self._alt(pattern)
        if optional and self._find(pattern, count=True) == 0:
            return False
        if label is None and is_hint(text):
            HINTED.add(self.name())
            if (FORCE_HINTS_OFF and self.name() not in FORCE_EXCEPT) or self.name() in HINTS_OFF:
                return False
            try:
                a, _ = self._find(pattern, nth)
            except ExtractError as e:
                raise HintLost(self.name(), str(e))
        a, _ = self._find(pattern, nth)
        self.insert_before_tok(a, text, label)
        return True

    def insert_after(self, pattern, text, nth='only', label=None, optional=False):
        pattern = self._alt(pattern)
        if optional and self._find(pattern, count=True) == 0:
            return False
        if label is None and is_hint(text):
            HINTED.add(self.name())
            if (FORCE_HINTS_OFF and self.name() not in FORCE_EXCEPT) or self.name() in HINTS_OFF:
                return False
            try:
                self._find(pattern, nth)
            except ExtractError as e:
                raise HintLost(self.name(), str(e))
        _, b = self._find(pattern, nth)
        self.insert_after_tok(b, text, label)
        return True

    def insert_after_stmt(self, head, text, nth='only', label=None):
        """Insert after the `;` that ends the statement starting with the token pattern `head` (the rest of the
        statement may be spelled anyhow: hints anchored this way survive edits to the arguments)."""
        hint = label is None and is_hint(text)
        if hint:
            HINTED.add(self.name())
        if hint and ((FORCE_HINTS_OFF and self.name() not in FORCE_EXCEPT) or self.name() in HINTS_OFF):
            return
        try:
            a, b = self._find(head, nth)
            i = b + 1
            depth = sum(1 for k in range(a, b + 1) if self.ct[k][0] == 'p' and self.ct[k][1] in '([{') \
                - sum(1 for k in range(a, b + 1) if self.ct[k][0] == 'p' and self.ct[k][1] in ')]}')
            while True:
                t = self.ct[i]
                if t[0] == 'p' and t[1] in '([{':
                    i = match_close(self.ct, i)
                elif t[0] == 'p' and t[1] == ';':
                    break
                elif t[0] == 'p' and t[1] in ')]}':
                    depth -= 1
                    if depth < 0:   # the anchor is a tail expression, not a statement
                        raise ExtractError('%s: statement starting with %r has no end' % (self.name(), head))
                elif i >= self.hi:
                    raise ExtractError('%s: statement starting with %r has no end' % (self.name(), head))
                i += 1
        except ExtractError as e:
            if hint:
                raise HintLost(self.name(), str(e))
            raise
        self.insert_after_tok(i, text, label)

    def replace(self, pattern, text, rule, nth='all'):
        n = self._find(pattern, count=True)
        if n == 0:
            raise ExtractError('%s: replacement anchor %r not found' % (self.name(), pattern))
        which = range(n) if nth == 'all' else [nth]
        for k in which:
            a, b = self._find(pattern, k)
            self.repls.append(Repl(self.ct[a][2], self.ct[b][3], text, rule))

    def name_closure_wildcards(self):
        """T16: a closure whose only parameter is the wildcard, `|_| e`, is spelled `|kv_unused| e` (Verus rejects `_`
        closure parameters).  `| _ |` cannot be anything but a closure head (`_` is not an expression)."""
        n = self._find('| _ |', count=True)
        done = 0
        for k in range(n):
            a, b = self._find('| _ |', k)
            if any(r.start <= self.ct[a][2] < r.end for r in self.repls):
                continue
            self.repls.append(Repl(self.ct[a][2], self.ct[b][3], '|kv_unused|', 'T16-closure-wildcard'))
            done += 1
        return done

    def rebind_size_hint(self):
        """T18: `x.size_hint()` on a plain local `x` is spelled `kv_size_hint(&x)`: Iterator already carries an
        external trait specification in vstd that cannot be extended, so the method gets its (assumed) contract through a
        free stand-in with the same value.  Any other receiver shape is left alone (and stays unsupported => undecided)."""
        done = 0
        i = self.item.lo
        while i + 4 <= self.hi:
            t = self.ct
            if (t[i][0] == 'id' and t[i + 1][1] == '.' and t[i + 2][1] == 'size_hint' and t[i + 3][1] == '(' and t[i + 4][1] == ')'
                    and (i == 0 or t[i - 1][1] not in ('.', ':'))
                    and not any(r.start <= t[i][2] < r.end for r in self.repls)):
                self.repls.append(Repl(t[i][2], t[i + 4][3], 'kv_size_hint(&%s)' % t[i][1], 'T18-size-hint'))
                done += 1
                i += 5
                continue
            i += 1
        return done

    def spell_byte_strings(self):
        """T17: a byte-string literal b"..." is spelled as the equal array reference &[0x..u8, ...] (same type
        &'static [u8; N], same value): Verus knows nothing about the bytes of a string literal."""
        done = 0
        for i in range(self.item.lo, self.hi + 1):
            t = self.ct[i]
            if t[0] != 'str' or not t[1].startswith('b"'):
                continue
            if any(r.start <= t[2] < r.end for r in self.repls):
                continue
            body, out, k = t[1][2:-1], [], 0
            ok = True
            while k < len(body):
                c = body[k]
                if c != '\\':
                    if ord(c) > 127:
                        ok = False
                        break
                    out.append(ord(c)); k += 1
                    continue
                e = body[k + 1] if k + 1 < len(body) else ''
                simple = {'n': 10, 'r': 13, 't': 9, '\\': 92, '0': 0, '"': 34, "'": 39}
                if e in simple:
                    out.append(simple[e]); k += 2
                elif e == 'x' and k + 3 < len(body) + 0 and all(h in '0123456789abcdefABCDEF' for h in body[k + 2:k + 4]):
                    out.append(int(body[k + 2:k + 4], 16)); k += 4
                else:
                    ok = False
                    break
            if not ok or not out:
                continue
            self.repls.append(Repl(t[2], t[3], '&[' + ', '.join('0x%02xu8' % b for b in out) + ']', 'T17-byte-string'))
            done += 1
        return done

    def static_str_consts(self):
        """T8 (function-local): `const NAME: &str = ..` is spelled `const NAME: &'static str = ..` (Verus wants the
        elided lifetime of a constant written out)."""
        done = 0
        for i in range(self.item.lo, self.hi - 4):
            t = self.ct
            if t[i][1] == 'const' and t[i + 2][1] == ':' and t[i + 3][1] == '&' and t[i + 4][1] == 'str':
                if any(r.start <= t[i + 3][2] < r.end for r in self.repls):
                    continue
                self._ins(t[i + 3][3], "'static ")
                done += 1
        return done

    def replace_if_present(self, pattern, text, rule):
        if self._find(pattern, count=True):
            self.replace(pattern, text, rule)

    def drop_attrs(self):
        """Replace the item's leading attributes by nothing (rule D-attr)."""
        if self.item.attrs_lo < self.item.lo:
            self.repls.append(Repl(self.ct[self.item.attrs_lo][2], self.ct[self.item.lo - 1][3], '', 'D-attr'))

    def drop_inner_attrs(self, pattern):
        """Drop attributes inside the item matching pattern (e.g. '#[inline]')."""
        n = self._find(pattern, count=True)
        for k in range(n):
            a, b = self._find(pattern, k)
            self.repls.append(Repl(self.ct[a][2], self.ct[b][3], '', 'D-attr'))

    def attr(self, text):
        """An attribute in front of the item (also carried by the vacuity-probe copy)."""
        self.insert_before_tok(self.item.lo, text + '\n')
        self.probe_prefix = getattr(self, 'probe_prefix', '') + text + '\n'

    # fn-level contract
    def name_result(self, var='r'):
        """`-> T` becomes `-> (r: T)`."""
        po, pc = self.params()
        o, _ = self.body()
        i = pc + 1
        if not (self.ct[i][1] == '-' and self.ct[i + 1][1] == '>'):
            return False
        j = i + 2
        end = j
        while end < o and self.ct[end][1] != 'where':
            end += 1
        self.insert_before_tok(j, '(%s: ' % var)
        self.insert_after_tok(end - 1, ')')
        return True

    def contract(self, requires=(), ensures=(), decreases=None, extra=None, result='r', opens_invariants=None,
                 no_unwind=False):
        """requires/ensures: lists of (label, text)."""
        self.last_contract = (list(requires), list(ensures))
        o, _ = self.body()
        if ensures or result:
            self.name_result(result or 'r')
        parts = []
        if requires:
            parts.append(('', 'requires'))
            for lab, txt in requires:
                parts.append((lab, '    ' + txt.strip() + ','))
        if ensures:
            parts.append(('', 'ensures'))
            for lab, txt in ensures:
                parts.append((lab, '    ' + txt.strip() + ','))
        if decreases:
            parts.append(('', 'decreases ' + decreases + ','))
        if no_unwind:
            parts.append(('', 'no_unwind'))
        if extra:
            parts.append(('', extra))
        for lab, txt in parts:
            self._ins(self.ct[o][2], '\n' + txt + '\n', lab or None)

    def loop_contract(self, n, invariant=(), decreases=None, ensures=(), invariant_except_break=()):
        _, o, _ = self.loop_body(n)
        parts = []
        if invariant_except_break:
            parts.append(('', 'invariant_except_break'))
            for lab, txt in invariant_except_break:
                parts.append((lab, '    ' + txt.strip() + ','))
        if invariant:
            parts.append(('', 'invariant'))
            for lab, txt in invariant:
                parts.append((lab, '    ' + txt.strip() + ','))
        if ensures:
            parts.append(('', 'ensures'))
            for lab, txt in ensures:
                parts.append((lab, '    ' + txt.strip() + ','))
        if decreases:
            parts.append(('', 'decreases ' + decreases + ','))
        for lab, txt in parts:
            self._ins(self.ct[o][2], '\n' + txt + '\n', lab or None)

    def body_start(self, text, label=None):
        o, _ = self.body()
        self._ins(self.ct[o][3], '\n' + text + '\n', label)

    def add_param(self, text):
        po, pc = self.params()
        empty = pc == po + 1
        # tolerate a trailing comma
        trailing = self.ct[pc - 1][1] == ','
        self._ins(self.ct[pc][2], ('' if empty or trailing else ', ') + text)

    def add_arg(self, callee_pattern, text, nth='all'):
        """Append an argument to calls `callee_pattern(...)`."""
        pat = callee_pattern + ' ('
        n = self._find(pat, count=True)
        if n == 0:
            if text.strip() == 'Tracked(w)':
                return   # T1: nothing to thread here any more; calls that exist are threaded from the fixed table (thread)
            raise ExtractError('%s: call anchor %r not found' % (self.name(), callee_pattern))
        which = range(n) if nth == 'all' else [nth]
        for k in which:
            _, b = self._find(pat, k)
            # the token before callee must not be `fn` (a definition)
            a, _ = self._find(pat, k)
            if self.ct[a - 1][1] == 'fn':
                continue
            c = match_close(self.ct, b)
            empty = c == b + 1
            trailing = self.ct[c - 1][1] == ','
            self._ins(self.ct[c][2], ('' if empty or trailing else ', ') + text)

    def thread(self, table, text='Tracked(w)'):
        """T1: every call to a world-threaded function (fixed table) gains the ghost argument.  Idempotent
        per call site: a call that already got the argument through an explicit add_arg is skipped."""
        done = set()
        for ch in self.chunks:
            if ch.text.strip().rstrip(',').endswith(text) or ch.text.strip() == text:
                done.add(ch.pos)
        for pat in table:
            full = pat + ' ('
            n = self._find(full, count=True)
            for k in range(n):
                a, b = self._find(full, k)
                if self.ct[a - 1][1] == 'fn':
                    continue
                c = match_close(self.ct, b)
                if self.ct[c][2] in done:
                    continue
                if any(r.start <= self.ct[c][2] < r.end for r in self.repls):
                    continue   # the call site was rewritten by a replacement rule, which supplies the argument itself
                empty = c == b + 1
                trailing = self.ct[c - 1][1] == ','
                self._ins(self.ct[c][2], ('' if empty or trailing else ', ') + text)
                done.add(self.ct[c][2])

    def add_arg_if_present(self, callee_pattern, text):
        if self._find(callee_pattern + ' (', count=True):
            self.add_arg(callee_pattern, text)

    def desugar_for(self, n, itvar='kw_it', elem='kw_x', next_args='', after_init='', after_next='', after_loop='', into_iter=False):
        """T3: `for P in E { B }` -> `{ let mut it = E; loop { let P = match it.next() {..}; B } }`.
        Afterwards the loop keyword is `loop` (loop_contract(n, ..) still addresses it)."""
        kw, o, c = self.loop_body(n)
        if self.ct[kw][1] != 'for':
            raise ExtractError('%s: loop #%d is not a for loop' % (self.name(), n))
        # pattern: tokens kw+1 .. in_idx-1 ; expr: in_idx+1 .. o-1
        i = kw + 1
        while True:
            t = self.ct[i]
            if t[0] == 'p' and t[1] in '([':
                i = match_close(self.ct, i)
            elif t[0] == 'id' and t[1] == 'in':
                break
            i += 1
        in_idx = i
        rule = 'T3-for'
        # `for`  ->  `{ let mut it = `   [expr moved]  ... we cannot move text, so we build by
        # replacing `for P in` with `{ let mut it = ` placed before E, and insert after E
        # `; loop` + after `{`: `let P = match it.next() {...};` and a closing brace after the body.
        pat_text = self.src[self.ct[kw + 1][2]:self.ct[in_idx - 1][3]]
        self.repls.append(Repl(self.ct[kw][2], self.ct[in_idx][3],
                               '{ let mut %s = ' % itvar, rule + ':' + ' '.join(
                                   rustlex.texts(rustlex.lex('for ' + pat_text + ' in')))))
        self._ins(self.ct[o][2], ('.into_iter()' if into_iter else '') + '; ' + after_init + ' loop ')
        self._ins(self.ct[o][3],
                  ' let %s = match %s.next(%s) { None => break, Some(%s) => %s }; ' % (pat_text, itvar, next_args, elem, elem) + after_next)
        self._ins(self.ct[c][3], ' ' + after_loop + ' }')

    # ---- rendering -------------------------------------------------------------------
    # ---- T15: mechanical inlining of a helper that has no contract --------------------------------
    def _split_commas(self, lo, hi):
        """Token ranges of the top-level comma-separated pieces of ct[lo..hi] (inclusive); empty pieces dropped."""
        parts, start, i = [], lo, lo
        while i <= hi:
            t = self.ct[i]
            if t[0] == 'p' and t[1] in '([{':
                i = match_close(self.ct, i)
            elif t[1] == '<' and t[0] == 'p':
                try:
                    i = skip_angles(self.ct, i) - 1
                except Exception:
                    pass
            elif t[0] == 'p' and t[1] == ',':
                if i > start:
                    parts.append((start, i - 1))
                start = i + 1
            i += 1
        if hi >= start:
            parts.append((start, hi))
        return parts

    def inline_calls(self, helper, kind, table):
        """T15: every call `name(args)` (kind 'fn') or `self.name(args)` (kind 'method') inside this item becomes
        `{ let (p1, p2,): (T1, T2,) = (args,); let kv_ret: R = BODY; kv_ret }`, BODY being the helper's own body
        (ghost-threaded by the same callee table).  Only for helpers whose body has no return / ? / loop / nested
        fn / unsafe and whose signature has no generics; anything else is not inlinable (ExtractError => undecided).
        Returns the number of call sites rewritten."""
        ct = self.ct
        name = helper.name
        sites = []
        lo, hi = self.item.lo, self.hi
        for i in range(lo, hi - 1):
            if ct[i][1] != name or ct[i][0] != 'id' or ct[i + 1][1] != '(':
                continue
            prev = ct[i - 1][1]
            if prev == 'fn':
                continue
            if kind == 'fn':
                if prev in ('.', '::'):
                    continue
                a = i
            else:
                if not (prev == '.' and ct[i - 2][1] == 'self' and ct[i - 3][1] not in ('.',)):
                    continue
                a = i - 2
            if helper.lo <= i <= helper.hi:
                continue   # the helper's own text (recursion is not inlinable anyway)
            if any(r.start <= ct[i][2] < r.end for r in self.repls):
                continue
            sites.append((a, i + 1, match_close(ct, i + 1)))
        if not sites:
            return 0
        hv = Woven(self.src, helper, self.relpath, self.path[:1] + ['<helper %s>' % name], self.props)
        k = hv.fn_kw()
        if ct[k + 2][1] == '<':
            raise ExtractError('helper %s (no contract) is generic: cannot be inlined' % name)
        po, pc = hv.params()
        o, c = hv.body()
        for j in range(o + 1, c):
            t = ct[j]
            if (t[0] == 'id' and t[1] in ('return', 'loop', 'while', 'for', 'fn', 'unsafe', 'await', 'break', 'continue')) or (t[0] == 'p' and t[1] == '?'):
                raise ExtractError('helper %s (no contract) contains `%s`: cannot be inlined; it needs a contract of its own' % (name, t[1]))
        pats, tys = [], []
        has_self = False
        for (x, y) in self._split_commas(po + 1, pc - 1):
            toks = [ct[j][1] for j in range(x, y + 1)]
            if toks[-1] == 'self' and all(tk in ('&', 'mut', 'self') or tk.startswith("'") for tk in toks):
                has_self = True
                continue
            colon = None
            for j in range(x, y + 1):
                if ct[j][1] == ':' and ct[j][0] == 'p':
                    colon = j
                    break
            pat = [ct[j][1] for j in range(x, colon)]
            if colon is None or not (len(pat) == 1 or (len(pat) == 2 and pat[0] == 'mut')) or ct[colon - 1][0] != 'id':
                raise ExtractError('helper %s (no contract) has a parameter pattern that cannot be inlined' % name)
            ty = self.src[ct[colon + 1][2]:ct[y][3]]
            if 'impl ' in ty or "'" in ty:
                raise ExtractError('helper %s (no contract) has a parameter type that cannot be spelled in a let' % name)
            pats.append(' '.join(pat))
            tys.append(ty)
        if (kind == 'method') != has_self:
            raise ExtractError('helper %s: receiver does not match its call sites' % name)
        ret = '()'
        if ct[pc + 1][1] == '-' and ct[pc + 2][1] == '>':
            ret = self.src[ct[pc + 3][2]:ct[o - 1][3]]
        hv.thread(table)
        hv.lo, hv.hi = o, c
        body_text, _ = hv.render()
        import re as _re
        body_text = _re.sub(r'/\*\+K\*/|/\*-K\*/', '', body_text)
        for (a, b, cl) in sites:
            if ct[cl - 1][1] == ',' and cl - 1 > b:
                raise ExtractError('call of helper %s has a trailing comma' % name)
            if pats:
                if cl == b + 1:
                    raise ExtractError('call of helper %s has no arguments' % name)
                head = '{ let (%s,): (%s,) = (' % (', '.join(pats), ', '.join(tys))
                tail = ',); let kv_ret: %s = %s; kv_ret }' % (ret, body_text)
            else:
                head = '{ let kv_ret: %s = %s; kv_ret }' % (ret, body_text)
                tail = ''
                self.repls.append(Repl(ct[a][2], ct[cl][3], head, 'T15-inline-helper:' + name))
                continue
            self.repls.append(Repl(ct[a][2], ct[b][3], head, 'T15-inline-helper:' + name))
            self.repls.append(Repl(ct[cl][2], ct[cl][3], tail, 'T15-inline-helper:' + name))
        return len(sites)

    def render(self):
        """Returns (text, label_spans) where label_spans = [(line_lo, line_hi, label)] relative
        to the first line (0-based) of the rendered text."""
        start = self.ct[self.lo][2]
        end = self.ct[self.hi][3]
        events = []
        for ch in self.chunks:
            events.append((ch.pos, 0, ch.order, ch))
        rcount = {}
        for r in sorted(self.repls, key=lambda r: r.start):
            events.append((r.start, 1, 0, r))
        events.sort(key=lambda e: (e[0], e[1], e[2]))
        out = []
        spans = []
        pos = start
        line = 0

        def emit(s):
            nonlocal line
            out.append(s)
            line += s.count('\n')

        repl_table = []
        self.chunk_start_off = {}
        for p, _, _, ev in events:
            if p < pos:
                raise ExtractError('%s: overlapping edits at byte %d' % (self.name(), p))
            emit(self.src[pos:p])
            pos = p
            if isinstance(ev, Chunk):
                self.chunk_start_off.setdefault(p, sum(len(x) for x in out))
                l0 = line + (1 if ev.text.startswith('\n') else 0)
                emit('/*+K*/' + ev.text)
                l1 = line - (1 if ev.text.endswith('\n') else 0)
                emit('/*-K*/')
                if ev.label:
                    spans.append((l0, max(l0, l1), ev.label))
                elif ev.hint:
                    spans.append((l0, max(l0, l1), 'KV-HINT'))
            else:
                n = rcount.get(ev.rule, 0)
                rcount[ev.rule] = n + 1
                orig = rustlex.texts(rustlex.lex(self.src[ev.start:ev.end]))
                repl_table.append((ev.rule, orig, ev.text))
                emit('/*+R:%d*/' % (len(repl_table) - 1) + ev.text + '/*-R*/')
                pos = ev.end
        emit(self.src[pos:end])
        self.repl_table = repl_table
        return ''.join(out), spans

    def original_tokens(self):
        return [t[1] for t in self.ct[self.lo:self.hi + 1]]


def erase(woven_text, repl_table):
    """Independent inverse of render(): returns the token texts of the original item as
    reconstructed from the woven text alone (plus the replacement table)."""
    toks = rustlex.lex(woven_text)
    out = []
    i = 0
    n = len(toks)
    while i < n:
        k, s = toks[i][0], toks[i][1]
        if k == 'bc' and s == '/*+K*/':
            depth = 1
            i += 1
            while i < n and depth:
                if toks[i][0] == 'bc' and toks[i][1] == '/*+K*/':
                    raise ExtractError('nested insertion markers')
                if toks[i][0] == 'bc' and toks[i][1] == '/*-K*/':
                    depth -= 1
                i += 1
            continue
        if k == 'bc' and s.startswith('/*+R:'):
            idx = int(s[5:-2])
            new = []
            i += 1
            while i < n and not (toks[i][0] == 'bc' and toks[i][1] == '/*-R*/'):
                if toks[i][0] not in ('ws', 'lc', 'bc'):
                    new.append(toks[i][1])
                i += 1
            i += 1
            rule, orig, text = repl_table[idx]
            if new != rustlex.texts(rustlex.lex(text)):
                raise ExtractError('replacement #%d text does not match its table entry' % idx)
            out.extend(orig)
            continue
        if k not in ('ws', 'lc', 'bc'):
            out.append(s)
        i += 1
    return out
