#!/usr/bin/env python3
"""./check <property-id> [--tier quick|thorough]

Decides one property by discharging, with Verus, every obligation generated from contracts woven
into functions extracted from /repo's current working tree.

exit 0  every obligation serving the property was discharged (KNOWN-FINDING lines possible)
exit 1  a definite obligation failure: prints `VIOLATION property=<id> replay=<path>[ no-failing-input-found]`
exit 2  undecided (lost anchor, unsupported construct, resource limit, vacuous contract): never an alarm
"""
import argparse
import importlib.util
import json
import os
import re
import sys
import time

sys.path.insert(0, os.path.dirname(os.path.abspath(__file__)))
import kv
from dev import load_unit, verify_unit
from extract import ExtractError

VERIF = kv.VERIF


def load_props():
    p = os.path.join(VERIF, 'contracts', 'props.py')
    spec = importlib.util.spec_from_file_location('props', p)
    m = importlib.util.module_from_spec(spec)
    spec.loader.exec_module(m)
    return m


def known_findings():
    res = {'finding': [], 'fixed': []}
    p = os.path.join(VERIF, 'known_findings.txt')
    if os.path.exists(p):
        for ln in open(p):
            ln = ln.strip()
            if not ln or ln.startswith('#'):
                continue
            m = re.match(r'^(finding|fixed):\s*property=(C\d+)\s+(.*)$', ln)
            if m:
                res[m.group(1)].append((m.group(2), m.group(3)))
    return res


def finding_matches(entry_text, failure):
    """A listed finding is identified by obligation label and function path."""
    m_ob = re.search(r'obligation=(\S+)', entry_text)
    m_site = re.search(r'site=(\S+)', entry_text)
    if not m_ob or not m_site:
        return False
    labs = [l.split(':', 1)[1] if ':' in l else l for l in failure['labels']]
    return m_ob.group(1) in labs and failure['fn'] is not None and failure['fn'].endswith(m_site.group(1))


def run_unit(name, tier, probe, log_air):
    rlimit = 30 if tier == 'quick' else 60
    if probe:
        rlimit = 8
    return verify_unit(name, probe=probe, rlimit=rlimit, log_air=log_air, suffix='__probe' if probe else '')


def main():
    ap = argparse.ArgumentParser()
    ap.add_argument('prop')
    ap.add_argument('--tier', default=os.environ.get('VERIF_TIER', 'quick'))
    ap.add_argument('--no-probe', action='store_true')
    args = ap.parse_args()
    tier = args.tier if args.tier in ('quick', 'thorough') else 'quick'
    seed = int(os.environ.get('VERIF_SEED', '0') or 0)
    pid = args.prop
    t0 = time.time()
    props = load_props()
    if pid not in props.PROPS:
        print('UNDECIDED property %s is not claimed (see MANIFEST.not_applicable)' % pid)
        return 2
    cfg = props.PROPS[pid]
    ev_path = os.path.join(os.environ.get('KV_EVIDENCE_DIR', os.path.join(VERIF, 'evidence')), pid + '.json')
    os.makedirs(os.path.dirname(ev_path), exist_ok=True)
    if os.path.exists(ev_path):
        os.remove(ev_path)

    undecided, failures = [], []
    unit_infos = []
    try:
        for uname in cfg['units']:
            u, res, fails, und, ntok = run_unit(uname, tier, False, True)
            undecided += ['%s: %s' % (uname, x) for x in und]
            for f in fails:
                f['unit'] = uname
            failures += fails
            oblig = kv.count_obligations(res, uname)
            times = kv.fn_times(res)
            scan = kv.trusted_scan(u.gen_text)
            info = {'unit': uname, 'u': u, 'res': res, 'oblig': oblig, 'times': times, 'scan': scan, 'ntok': ntok, 'und': und, 'nfail': len(fails)}
            unit_infos.append(info)
            if getattr(u, 'stub_lemmas', None) is not None:
                # stub justification lemmas do not depend on /repo: a failure is a defect of the prelude, never an alarm
                bad = [f for f in fails if any(l.startswith('KV-STUB:') for l in f['labels']) or not f['props']]
                if bad:
                    undecided.append('%s: stub justification failed: %s' % (uname, sorted(set(l for f in bad for l in f['labels']))))
                continue
            # vacuity probe
            if not args.no_probe and not und:
                pu, pres, pfails, pund, _ = run_unit(uname, tier, True, False)
                want = [v.name() for v in pu.fns if getattr(v, 'probe_ok', True) and v.item.body_range()
                        and (tier == 'thorough' or pid in v.props)]
                got = set()
                for f in pfails:
                    for lab in f['labels']:
                        if lab.startswith('VACUITY::'):
                            got.add(lab[len('VACUITY::'):])
                hard = [x for x in pund if 'resource limit' not in x]
                if hard:
                    undecided += ['%s (vacuity probe): %s' % (uname, x) for x in hard]
                missing = [w for w in want if w not in got]
                # a probe that hits the resource limit did not verify `false`: acceptable
                rl = ' '.join(pund)
                missing = [w for w in missing if w.split('::')[-1].replace('fn ', '') not in rl]
                if missing and not failures:
                    undecided.append('%s: vacuity probe: `ensures false` was NOT refuted for %s '
                                     '(contradictory precondition or stub contract)' % (uname, missing))
                info['probe'] = {'functions_probed': want, 'refuted_false': sorted(got & set(want)), 'wall_s': round(pres['wall'], 2)}
    except (ExtractError, kv.Undecided) as e:
        undecided.append('%s: %s' % (type(e).__name__, e))

    extra_res = None
    if cfg.get('extra') and not undecided:
        try:
            extra_res = cfg['extra'](tier)
            undecided += extra_res.get('undecided', [])
            failures += extra_res.get('failures', [])
        except Exception as e:
            undecided.append('extra verifier failed to run: %r' % (e,))

    # --- evidence -------------------------------------------------------------------------
    mine = [f for f in failures if pid in f['props'] and not f['probe']]
    others = [f for f in failures if pid not in f['props'] and not f['probe']]
    kf = known_findings()
    listed, new = [], []
    for f in mine:
        hit = None
        for (p, text) in kf['finding']:
            if p == pid and finding_matches(text, f):
                hit = text
                break
        (listed if hit else new).append((f, hit))

    fns, n_obl, solver_s, trusted, dropped, transformations, samples = [], 0, 0.0, [], [], {}, []
    stub_just = None
    cmds, probes = [], []
    for info in unit_infos:
        u = info['u']
        cmds.append(re.sub(r'/gen/run-\d+/', '/gen/', info['res']['cmd']) + (' [verdict reused from .cache/verus: identical generated file]' if info['res'].get('cached') else ''))
        for v in u.fns:
            if pid not in v.props:
                continue
            vname = v.name()
            air = info['unit'] + '::' + getattr(v, 'air', '?')
            if '@' in air:
                cnt = sum(c for k, c in info['oblig'].items() if '@' in k and re.fullmatch(air, k))
            else:
                cnt = sum(c for k, c in info['oblig'].items() if '@' not in k and re.fullmatch(air, k))
            tsec = sum(c for k, c in info['times'].items() if re.fullmatch(air.split('@')[0], k))
            fns.append({'function': vname, 'obligations': cnt, 'solver_s': round(tsec, 3)})
            if cnt == 0 and info['oblig'] and not info['und'] and not info['nfail'] and getattr(v, 'has_body', True):
                # every function under contract carries at least its postcondition: zero means the log name drifted
                undecided.append('%s: no obligation counted for %s (AIR name pattern %s matches nothing)' % (info['unit'], vname, air))
            n_obl += cnt
            solver_s += tsec
        for lo, hi, lab, origin in u.label_spans:
            head = lab.split(':')[0].split()
            if pid in head and len(samples) < 6:
                txt = '\n'.join(u.gen_text.split('\n')[lo:hi + 1]).strip()
                samples.append({'obligation': lab, 'site': origin, 'clause': txt[:400]})
        sc = info['scan']
        trusted += ['assume_specification: ' + x for x in sc['assume_specification']]
        trusted += ['external_body: ' + x for x in sc['external_body']]
        trusted += ['external_type_specification: ' + x for x in sc['external_type_specification']]
        trusted += ['uninterpreted spec fn: ' + x for x in sc['uninterp']]
        trusted += ['axiom: ' + x for x in sc['axiom']]
        if sc['assume'] or sc['admit']:
            undecided.append('%s: generated file contains %d assume() and %d admit()' % (info['unit'], sc['assume'], sc['admit']))
        dropped += u.dropped
        for k, c in u.transformations().items():
            transformations[k] = transformations.get(k, 0) + c
        if getattr(u, 'stub_lemmas', None) is not None:
            for ln in u.stub_lemmas:
                key = '%s::stub_justification::%s' % (info['unit'], ln)
                cnt = info['oblig'].get(key, 0)
                fns.append({'function': 'stub justification lemma %s (generated from the stand-in contract by tools/stubjust.py)' % ln, 'obligations': cnt,
                            'solver_s': round(info['times'].get(key, 0.0), 3)})
                n_obl += cnt
                solver_s += info['times'].get(key, 0.0)
                if cnt == 0 and info['oblig'] and not info['und'] and not info['nfail']:
                    undecided.append('%s: no obligation counted for %s' % (info['unit'], ln))
            stub_just = {'proved': list(u.stub_lemmas), 'not_justified': [list(x) for x in u.stub_assumed]}
        if 'probe' in info:
            probes.append(dict(unit=info['unit'], **info['probe']))
        trusted += u.trusted_notes
    other_backends = []
    if extra_res:
        n_obl += extra_res.get('obligations', 0)
        cmds += extra_res.get('cmds', [])
        other_backends = extra_res.get('backends', [])
        solver_s += extra_res.get('solver_s', 0.0)
        for x in extra_res.get('functions', []):
            fns.append(x)
    trusted += cfg.get('trusted', [])
    trusted = sorted(set(trusted))
    n_failed = len(mine)
    if n_obl == 0 and not undecided:
        undecided.append('no obligations were generated for %s (vacuous check)' % pid)

    violations = len(new)
    replay_paths = []
    os.makedirs(os.path.join(VERIF, 'replays'), exist_ok=True)
    for n, (f, _) in enumerate(new):
        rp = os.path.join(VERIF, 'replays', '%s-%d.json' % (pid, n))
        found = None
        replayer = cfg.get('replayer')
        if replayer and n > 0:
            found = replay_paths[0][1]
        elif replayer:
            try:
                found = replayer(f, tier)
            except Exception as e:  # the replayer is best effort
                found = None
                f['replayer_error'] = repr(e)
        json.dump({'property': pid, 'obligation': f['labels'] or ['implicit: ' + f['message']],
                   'function': f['fn'], 'unit': f.get('unit'), 'verifier_message': f['message'],
                   'verifier_output': f['rendered'], 'woven_source_excerpt': f['excerpt'],
                   'failing_input': found, 'replayer_error': f.get('replayer_error')},
                  open(rp, 'w'), indent=1)
        replay_paths.append((rp, found))

    bounded = []
    extra_cov = {}
    if not new and tier == 'quick' and cfg.get('replayer'):
        # Bounded native search on the real crate (seconds), run on every quick check next to the proof: it covers what
        # the trusted std specifications cannot see (e.g. an allocation sized by the caller's capacity) and stands in
        # when the verifier is undecided (lost anchor, unsupported construct).  It can only add a VIOLATION with a
        # concrete failing input (confirmed by a second run); it never turns UNDECIDED into OK and nothing it
        # explores is counted as proved.
        found = None
        try:
            found = cfg['replayer'](None, tier)
            if found:
                again = cfg['replayer'](None, tier)
                if not again:
                    # noise of the bounded search must never decide anything
                    bounded.append('bounded native search: an observation did not reproduce and was discarded: %s' % json.dumps(found)[:300])
                    found = None
        except Exception as e:
            found = None
            bounded.append('bounded native search failed to run: %r' % (e,))
        bounded.append('bounded native search of the real crate next to the proof: %s (%s; labelled bounded, never counted as proved)'
                       % (getattr(cfg['replayer'], 'what', 'kreplay'), 'found a failing input' if found else 'no failing input'))
        if found:
            rp = os.path.join(VERIF, 'replays', '%s-b0.json' % pid)
            json.dump({'property': pid, 'obligation': ['bounded: native observation on the real crate contradicts the property'
                                                       + ((' (the deductive check was undecided: %s)' % '; '.join(undecided)[:600]) if undecided else '')],
                       'failing_input': found}, open(rp, 'w'), indent=1)
            replay_paths.append((rp, found))
            violations += 1
    if tier == 'thorough' and cfg.get('thorough'):
        try:
            extra = cfg['thorough'](tier)
            bounded += extra.get('bounded', [])
            extra_cov = extra.get('coverage', {})
            for v in extra.get('violations', []):
                rp = os.path.join(VERIF, 'replays', '%s-t%d.json' % (pid, len(replay_paths)))
                json.dump(v, open(rp, 'w'), indent=1)
                replay_paths.append((rp, v.get('failing_input')))
                violations += 1
            undecided += extra.get('undecided', [])
        except Exception as e:
            undecided.append('thorough-tier add-on failed to run: %r' % (e,))

    wall = time.time() - t0
    ev = {
        'property_id': pid, 'tier': tier, 'seed': seed, 'level': 'proof',
        'coverage': {
            'obligations': n_obl, 'discharged': max(0, n_obl - n_failed) if not undecided else 0,
            'checker_cmd': ' ; '.join(cmds),
            'trusted_base': trusted,
            'functions_under_contract': fns,
            'backend': 'Verus 0.2026.09.13 (Z3 4.12.5 bundled) on functions extracted verbatim from /repo/src; '
                       'obligations counted as assert statements of the initial-form AIR queries of those functions',
            'other_backends': other_backends,
            'solver_time_s': round(solver_s, 3),
            'samples': samples,
            'extraction': {'source_tokens_checked_by_erasure': sum(i['ntok'] for i in unit_infos),
                           'transformations_applied': transformations, 'dropped': dropped},
            'vacuity_probe': probes,
            'stub_justification': stub_just,
            'bounded': bounded + cfg.get('bounded', []),
            'not_covered': cfg.get('not_covered', []),
            'failed_obligations': [{'labels': f['labels'], 'function': f['fn'], 'message': f['message']} for f in mine],
            'failed_obligations_of_other_properties': len(others),
            'undecided': undecided,
            'proof_hint_assertions_stripped': [x for info in unit_infos for x in getattr(info['u'], 'stripped_hint_asserts', [])],
            'proof_hints_dropped': {info['unit']: getattr(info['u'], 'hints_off', {}) for info in unit_infos if getattr(info['u'], 'hints_off', {})},
            'known_findings_reported': [h for _, h in listed],
        },
        'assumptions': cfg.get('assumptions', []) + trusted,
        'wall_s': round(wall, 2),
        'violations': violations,
    }
    ev['coverage'].update(extra_cov)
    json.dump(ev, open(ev_path, 'w'), indent=1)

    for f, hit in listed:
        print('KNOWN-FINDING: property=%s %s' % (pid, hit))
    for rp, found in replay_paths:
        print('VIOLATION property=%s replay=%s%s' % (pid, rp, '' if found else ' no-failing-input-found'))
    if violations:
        for f, _ in new:
            print('  failed obligation: %s in %s (%s)' % (f['labels'] or 'implicit', f['fn'], f['message']))
        return 1
    if undecided:
        for x in undecided:
            print('UNDECIDED %s' % x[:1000])
        return 2
    print('OK property=%s obligations=%d discharged=%d functions=%d solver=%.1fs wall=%.1fs' % (
        pid, n_obl, n_obl - n_failed, len(fns), solver_s, wall))
    return 0


def _publish_gen(run_dir, gen_dir):
    """Per-process generation directory (parallel checks never share a file); the last generated text of each unit is
    moved to gen/<unit>.rs (atomic rename) for inspection, then the run directory is removed."""
    import shutil
    try:
        for fn in os.listdir(run_dir):
            src = os.path.join(run_dir, fn)
            if os.path.isfile(src) and fn.endswith('.rs'):
                os.replace(src, os.path.join(gen_dir, fn))
    except OSError:
        pass
    shutil.rmtree(run_dir, ignore_errors=True)


if __name__ == '__main__':
    _gen_dir = kv.GEN
    _run_dir = os.path.join(_gen_dir, 'run-%d' % os.getpid())
    os.makedirs(_run_dir, exist_ok=True)
    kv.GEN = _run_dir
    try:
        rc = main()
    except SystemExit:
        _publish_gen(_run_dir, _gen_dir)
        raise
    except BaseException as e:   # a crash of the machinery is never an alarm
        import traceback
        traceback.print_exc()
        print('UNDECIDED internal error in the check machinery: %r' % (e,))
        rc = 2
    _publish_gen(_run_dir, _gen_dir)
    sys.exit(rc)
