"""U7: Kani twins on the real, unmodified crate (scratch copy with a #[cfg(kani)] module appended)."""
import os
import re
import shutil
import subprocess
import tempfile
import time

import kv


def run_twins(twins, subst=None, timeout=1200):
    """twins: list of (src_relpath, twin_file, [harness names]).  Returns dict harness -> result."""
    scratch = tempfile.mkdtemp(prefix='kv_kani_')
    out = {}
    t0 = time.time()
    try:
        subprocess.run(['rsync', '-a', '--exclude', 'target', '--exclude', '.git', kv.REPO + '/', scratch + '/'], check=True)
        for rel, twin, _ in twins:
            txt = open(os.path.join(kv.VERIF, 'contracts', 'kani', twin)).read()
            for k, v in (subst or {}).items():
                txt = txt.replace('@%s@' % k, v)
            with open(os.path.join(scratch, rel), 'a') as f:
                f.write(txt)
        env = dict(os.environ, CARGO_NET_OFFLINE='true', CARGO_TARGET_DIR=os.path.join(scratch, 'target'))
        for rel, twin, harnesses in twins:
            for h in harnesses:
                cmd = ['cargo', 'kani', '--harness', h]
                try:
                    p = subprocess.run(cmd, cwd=scratch, env=env, stdout=subprocess.PIPE, stderr=subprocess.STDOUT,
                                       text=True, timeout=timeout)
                    txt = p.stdout
                except subprocess.TimeoutExpired:
                    out[h] = {'status': 'undecided', 'detail': 'timeout', 'cmd': ' '.join(cmd)}
                    continue
                m = re.search(r'VERIFICATION:- (\w+)', txt)
                checks = re.search(r'\*\* (\d+) of (\d+) failed', txt)
                failed = re.findall(r'Failed Checks: (.*)', txt)
                vt = re.search(r'Verification Time: ([\d.]+)s', txt)
                if not m:
                    out[h] = {'status': 'undecided', 'detail': txt[-1500:], 'cmd': ' '.join(cmd)}
                else:
                    out[h] = {'status': 'ok' if m.group(1) == 'SUCCESSFUL' else 'failed',
                              'checks': int(checks.group(2)) if checks else None,
                              'failed_checks': failed, 'cbmc_s': float(vt.group(1)) if vt else None,
                              'cmd': 'CARGO_NET_OFFLINE=true ' + ' '.join(cmd) + '  (in a scratch copy of /repo with contracts/kani/%s appended to %s)' % (twin, rel)}
    finally:
        shutil.rmtree(scratch, ignore_errors=True)
    for h in out:
        out[h]['wall_s'] = round(time.time() - t0, 1)
    return out
