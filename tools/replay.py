"""Build and run the native replay/search binary against /repo's current working tree."""
import json
import os
import subprocess

import kv

CACHE = os.path.join(kv.VERIF, '.cache')


def kreplay(sub, args=(), timeout=900):
    env = dict(os.environ, CARGO_NET_OFFLINE='true', CARGO_TARGET_DIR=os.path.join(CACHE, 'target'))
    crate = os.path.join(kv.VERIF, 'replay')
    manifest = os.path.join(crate, 'Cargo.toml')
    if kv.REPO != '/repo':
        # scratch copy of the repository (self-tests): build a sibling crate pointing at it
        alt = os.path.join(CACHE, 'replay_alt')
        subprocess.run(['rm', '-rf', alt])
        subprocess.run(['cp', '-r', crate, alt], check=True)
        txt = open(os.path.join(alt, 'Cargo.toml')).read().replace('path = "/repo"', 'path = "%s"' % kv.REPO)
        open(os.path.join(alt, 'Cargo.toml'), 'w').write(txt)
        manifest = os.path.join(alt, 'Cargo.toml')
    b = subprocess.run(['cargo', 'build', '--release', '--offline', '-q', '--manifest-path', manifest],
                       env=env, stdout=subprocess.PIPE, stderr=subprocess.PIPE, text=True, timeout=timeout)
    if b.returncode != 0:
        raise RuntimeError('replay crate failed to build: ' + b.stderr[-2000:])
    exe = os.path.join(CACHE, 'target', 'release', 'kreplay')
    r = subprocess.run([exe, sub] + [str(a) for a in args], stdout=subprocess.PIPE, stderr=subprocess.PIPE,
                       text=True, timeout=timeout)
    last = [ln for ln in r.stdout.splitlines() if ln.strip().startswith('{')]
    if not last:
        raise RuntimeError('replayer produced no result: rc=%s %s' % (r.returncode, r.stderr[-1000:]))
    return json.loads(last[-1])


def _build():
    env = dict(os.environ, CARGO_NET_OFFLINE='true', CARGO_TARGET_DIR=os.path.join(CACHE, 'target'))
    crate = os.path.join(kv.VERIF, 'replay')
    manifest = os.path.join(crate, 'Cargo.toml')
    if kv.REPO != '/repo':
        alt = os.path.join(CACHE, 'replay_alt')
        subprocess.run(['rm', '-rf', alt])
        subprocess.run(['cp', '-r', crate, alt], check=True)
        txt = open(os.path.join(alt, 'Cargo.toml')).read().replace('path = "/repo"', 'path = "%s"' % kv.REPO)
        open(os.path.join(alt, 'Cargo.toml'), 'w').write(txt)
        manifest = os.path.join(alt, 'Cargo.toml')
    b = subprocess.run(['cargo', 'build', '--release', '--offline', '-q', '--manifest-path', manifest],
                       env=env, stdout=subprocess.PIPE, stderr=subprocess.PIPE, text=True, timeout=900)
    if b.returncode != 0:
        raise RuntimeError('replay crate failed to build: ' + b.stderr[-2000:])
    return os.path.join(CACHE, 'target', 'release', 'kreplay')


TRACED = '%file,%desc,nanosleep,clock_nanosleep,flock'
LOCKS = ('flock', 'nanosleep', 'clock_nanosleep')


def _regions(path):
    """Cuts an strace log into the regions between the marker calls of replay/src/c20.rs."""
    import re
    regs, cur, name = [], None, None
    for ln in open(path, errors='replace'):
        m = re.match(r'^(?:\d+\s+)?(\w+)\((.*)$', ln)
        if not m:
            continue
        sc, rest = m.group(1), m.group(2)
        mk = re.search(r'"/kv-marker/([^"]+)"', rest)
        if mk:
            if name is not None:
                regs.append((name, cur))
            name, cur = mk.group(1), []
            continue
        if name is not None:
            cur.append((sc, rest.rstrip()))
    return regs, name


def c20_search(tier='quick'):
    """Bounded stand-in for C20 / C06 (see replay/src/c20.rs).  Returns a failing input (dict) or None."""
    import collections, re, tempfile
    exe = _build()
    sizes = (3, 1500) if tier == 'quick' else (0, 10, 100, 2000)
    runs = {}
    for n in sizes:
        tf = tempfile.NamedTemporaryFile(prefix='kvtrace', suffix='.log', delete=False)
        tf.close()
        args = ['strace', '-f', '-qq', '-e', 'trace=' + TRACED, '-o', tf.name, exe, 'c20', str(n)] + (['linked'] if n == sizes[0] else [])
        timed_out = False
        try:
            pr = subprocess.run(args, stdout=subprocess.PIPE, stderr=subprocess.PIPE, text=True, timeout=60)
            if pr.returncode == 3:      # the program's own five-second watchdog (replay/src/c20.rs)
                timed_out = True
        except subprocess.TimeoutExpired:
            timed_out = True
        regs, last = _regions(tf.name)
        os.unlink(tf.name)
        if timed_out:
            return {'entries': n, 'operation': last, 'what': 'the operation did not complete (five-second watchdog of the operation, or 60 s for the whole script): it waits or retries without bound'}
        if not regs or not any(nm.endswith(':end') for nm, _ in regs) and last is None:
            raise RuntimeError('no marker regions in the trace (strace unavailable?)')
        runs[n] = regs
        for nm, calls in regs:
            if nm.endswith(':end'):
                continue
            for sc, rest in calls:
                if sc in LOCKS or (sc == 'fcntl' and re.search(r'F_(OFD_)?SETLKW?|F_GETLK', rest)):
                    return {'entries': n, 'operation': nm, 'what': 'the operation takes a lock or sleeps', 'call': (sc + '(' + rest)[:200]}
            opened, peak = set(), 0
            for sc, rest in calls:
                m = re.search(r'=\s*(-?\d+)', rest[rest.rfind(')'):]) if ')' in rest else None
                ret = int(m.group(1)) if m else None
                if sc in ('openat', 'open', 'creat', 'openat2') and ret is not None and ret >= 0:
                    opened.add(ret)
                    peak = max(peak, len(opened))
                elif sc == 'close':
                    a = re.match(r'\s*(\d+)', rest)
                    if a:
                        opened.discard(int(a.group(1)))
            bound = 3 if nm.startswith('stacked') else 2
            if peak > bound:
                return {'entries': n, 'operation': nm, 'what': 'the operation holds %d descriptors open at once (bound %d)' % (peak, bound)}
            if opened:
                return {'entries': n, 'operation': nm, 'what': '%d descriptor(s) opened by the operation are still open after it returned and its result was dropped' % len(opened)}
            if nm.split(':')[1].startswith('get') and not nm.startswith('stacked'):
                # a lookup makes at most two open attempts per cache directory; a sharded cache is ONE cache directory
                # (one attempt per candidate shard)
                attempts = sum(1 for sc, _ in calls if sc in ('openat', 'open', 'openat2'))
                if attempts > 2:
                    return {'entries': n, 'operation': nm, 'what': '%d open attempts for one lookup in one cache directory (bound 2)' % attempts}
    base = sizes[0]
    ref = {nm: collections.Counter(sc for sc, _ in calls) for nm, calls in runs[base]}
    # a cache from a builder reused after take() behaves like one from a fresh builder (same calls, fsync included)
    for opn in ('set-new', 'ensure-miss', 'put-new'):
        a, b = ref.get('fresh:' + opn), ref.get('reused:' + opn)
        if a is not None and b is not None:
            diff = {k: (a.get(k, 0), b.get(k, 0)) for k in set(a) | set(b) if a.get(k, 0) != b.get(k, 0) and k not in ('utimensat', 'futimens')}
            if diff:
                return {'operation': opn, 'what': 'a cache built from a builder that was reused after take() issues other system calls than one from a fresh builder '
                        '(settings such as auto_sync were not reset to their defaults)', 'calls_that_differ (fresh, reused)': diff}
    for n in sizes[1:]:
        for nm, calls in runs[n]:
            if nm.endswith(':end') or nm.startswith('linked'):
                continue
            cnt = collections.Counter(sc for sc, _ in calls)
            if nm.endswith('-missing-source'):
                # these two run under the program's watchdog thread: the stack of that thread is mapped and unmapped inside the region
                for noise in ('mmap', 'munmap', 'mprotect', 'madvise'):
                    cnt.pop(noise, None)
                    ref.get(nm, {}).pop(noise, None)
            # the advisory re-touch of a hit (utimensat / futimens) happens or not depending on what the kernel did to
            # the access time at open, i.e. on timing: at most one such call per copy may come or go between two runs
            diff = {k: (ref[nm].get(k, 0), cnt.get(k, 0)) for k in set(ref.get(nm, {})) | set(cnt)
                    if ref.get(nm, {}).get(k, 0) != cnt.get(k, 0) and not (k in ('utimensat', 'futimens') and abs(ref[nm].get(k, 0) - cnt.get(k, 0)) <= 4)}
            if nm in ref and diff:
                return {'operation': nm, 'what': 'the number of system calls depends on the number of entries',
                        'entries_compared': [base, n], 'calls_that_differ (few, many)': diff}
    return None


FAULTABLE = ('openat', 'read', 'write', 'fsync', 'fdatasync', 'rename', 'renameat', 'renameat2', 'link', 'linkat', 'unlink', 'unlinkat',
             'utimensat', 'chmod', 'fchmod', 'fchmodat', 'statx', 'newfstatat', 'fstat', 'lseek', 'mkdir', 'mkdirat', 'copy_file_range',
             'sendfile', 'close', 'getdents64')
C18_QUICK = ['plain-set', 'plain-put', 'plain-putexisting', 'plain-ensure', 'plain-promote', 'plain-replace', 'plain-gethit-checked', 'sharded-put-fresh']
C18_THOROUGH = C18_QUICK + ['sharded-set', 'sharded-ensure', 'sharded-promote', 'plain-set-fresh', 'plain-ensure-fresh', 'plain-touch', 'plain-get', 'plain-ensurehit-checked',
                            'plain-promote-checked']


def c18_search(tier='quick'):
    """Bounded stand-in for C18: every system call of one operation fails in turn (strace fault injection, EIO); the
    program judges the outcome itself (replay/src/c18.rs).  Returns a failing input (dict) or None."""
    import collections, re, tempfile
    exe = _build()
    runs = 0
    for scen in (C18_QUICK if tier == 'quick' else C18_THOROUGH):
        tf = tempfile.NamedTemporaryFile(prefix='kvtrace', suffix='.log', delete=False)
        tf.close()
        p = subprocess.run(['strace', '-f', '-qq', '-e', 'trace=' + ','.join(FAULTABLE), '-o', tf.name, exe, 'c18', scen],
                           stdout=subprocess.PIPE, stderr=subprocess.PIPE, text=True, timeout=60)
        before, inside, state = collections.Counter(), collections.Counter(), 0
        for ln in open(tf.name, errors='replace'):
            m = re.match(r'^(?:\d+\s+)?(\w+)\(', ln)
            if not m:
                continue
            sc = m.group(1)
            if '"/kv-marker/begin"' in ln:
                before[sc] += 1
                state = 1
                continue
            if '"/kv-marker/end"' in ln:
                state = 2
                continue
            if state == 0:
                before[sc] += 1
            elif state == 1:
                inside[sc] += 1
        os.unlink(tf.name)
        if state != 2:
            raise RuntimeError('c18: no marker region in the trace of %s (strace unavailable?): %s' % (scen, p.stderr[-300:]))
        base = [ln for ln in p.stdout.splitlines() if ln.startswith('{')]
        if not base or json.loads(base[-1]).get('outcome') != 'ok' or json.loads(base[-1]).get('problems'):
            return {'scenario': scen, 'fault': None, 'what': 'the operation misbehaves even without a fault', 'report': base[-1] if base else p.stderr[-300:]}
        op = scen.split('-')[1]
        for sc, n in sorted(inside.items()):
            for k in range(1, n + 1):
                runs += 1
                q = subprocess.run(['strace', '-f', '-qq', '-e', 'trace=' + sc, '-e', 'inject=%s:error=EIO:when=%d' % (sc, before[sc] + k), '-o', '/dev/null', exe, 'c18', scen],
                                   stdout=subprocess.PIPE, stderr=subprocess.PIPE, text=True, timeout=60)
                out = [ln for ln in q.stdout.splitlines() if ln.startswith('{')]
                if not out:
                    return {'scenario': scen, 'fault': '%s #%d fails with EIO' % (sc, k), 'what': 'the process died (abort or unhandled panic)', 'stderr': q.stderr[-300:]}
                rep = json.loads(out[-1])
                documented = sc in ('fsync', 'fdatasync') and op in ('set', 'put', 'putexisting')
                if rep['outcome'] == 'panic' and not documented:
                    return {'scenario': scen, 'fault': '%s #%d of the operation fails with EIO' % (sc, k), 'what': 'the operation panics', 'stderr': q.stderr[-300:]}
                if sc in ('fsync', 'fdatasync') and rep.get('visible_after_op') and not rep.get('was_in_write_cache'):
                    return {'scenario': scen, 'fault': '%s #%d of the operation fails with EIO' % (sc, k), 'outcome': rep['outcome'],
                            'what': 'a failed flush was followed by publication: the key is visible in the write cache'}
                if rep['problems'] and not (rep['outcome'] == 'panic' and documented):
                    return {'scenario': scen, 'fault': '%s #%d of the operation fails with EIO' % (sc, k), 'outcome': rep['outcome'], 'what': '; '.join(rep['problems'])[:600]}
    c18_search.runs = runs
    return None


C02_QUICK = ['plain-set', 'plain-put', 'plain-ensure', 'plain-promote', 'plain-set-maint', 'sharded-put-fresh']
C02_THOROUGH = C02_QUICK + ['plain-setexisting', 'plain-putexisting', 'plain-replace', 'plain-put-fresh', 'plain-put-maint', 'sharded-set', 'sharded-ensure',
                            'sharded-promote', 'sharded-set-maint', 'plain-ensure-fresh']
MUTATORS = ('openat', 'write', 'fsync', 'fdatasync', 'rename', 'renameat', 'renameat2', 'link', 'linkat', 'unlink', 'unlinkat', 'utimensat', 'chmod', 'fchmod',
            'fchmodat', 'mkdir', 'mkdirat', 'copy_file_range', 'sendfile', 'close', 'getdents64', 'statx', 'read', 'lseek')


def c02_search(tier='quick'):
    """Bounded stand-in for C02: the process is killed (SIGKILL injected by strace on entry to a system call) at every
    boundary between two filesystem calls of one operation; a second process then inspects and uses the directories
    (replay/src/c02.rs).  Returns a failing input (dict) or None."""
    import collections, re, shutil, tempfile
    exe = _build()
    runs = 0
    for scen in (C02_QUICK if tier == 'quick' else C02_THOROUGH):
        root = tempfile.mkdtemp(prefix='kvc02_')
        tf = tempfile.NamedTemporaryFile(prefix='kvtrace', suffix='.log', delete=False)
        tf.close()
        try:
            p = subprocess.run(['strace', '-f', '-qq', '-e', 'trace=' + ','.join(MUTATORS), '-o', tf.name, exe, 'c02', 'run', root, scen],
                               stdout=subprocess.PIPE, stderr=subprocess.PIPE, text=True, timeout=60)
            order, before, state = [], collections.Counter(), 0
            for ln in open(tf.name, errors='replace'):
                m = re.match(r'^(?:\d+\s+)?(\w+)\(', ln)
                if not m:
                    continue
                sc = m.group(1)
                if '"/kv-marker/begin"' in ln:
                    before[sc] += 1
                    state = 1
                    continue
                if '"/kv-marker/end"' in ln:
                    state = 2
                    continue
                if state == 0:
                    before[sc] += 1
                elif state == 1:
                    before[sc] += 1
                    order.append((sc, before[sc]))
            if state != 2:
                raise RuntimeError('c02: no marker region in the trace of %s (strace unavailable?): %s' % (scen, p.stderr[-300:]))
            v = subprocess.run([exe, 'c02', 'verify', root, scen], stdout=subprocess.PIPE, stderr=subprocess.PIPE, text=True, timeout=120)
            out = [ln for ln in v.stdout.splitlines() if ln.startswith('{')]
            if not out or json.loads(out[-1])['problems']:
                return {'scenario': scen, 'killed_at': None, 'what': 'the directories are not valid even after an undisturbed run: ' + (out[-1] if out else v.stderr[-300:])}
        finally:
            os.unlink(tf.name)
            shutil.rmtree(root, ignore_errors=True)
        # kill on entry to the i-th call of the operation (and once after the last one: order + end marker)
        for i, (sc, nth) in enumerate(order):
            runs += 1
            root = tempfile.mkdtemp(prefix='kvc02_')
            try:
                subprocess.run(['strace', '-f', '-qq', '-e', 'trace=' + sc, '-e', 'inject=%s:signal=SIGKILL:when=%d' % (sc, nth), '-o', '/dev/null',
                                exe, 'c02', 'run', root, scen], stdout=subprocess.PIPE, stderr=subprocess.PIPE, text=True, timeout=60)
                v = subprocess.run([exe, 'c02', 'verify', root, scen], stdout=subprocess.PIPE, stderr=subprocess.PIPE, text=True, timeout=120)
                out = [ln for ln in v.stdout.splitlines() if ln.startswith('{')]
                if not out:
                    return {'scenario': scen, 'killed_at': 'entry to call #%d of the operation (%s)' % (i + 1, sc), 'what': 'the verifying process died: ' + v.stderr[-300:]}
                rep = json.loads(out[-1])
                if rep['problems']:
                    return {'scenario': scen, 'killed_at': 'entry to call #%d of the operation (%s)' % (i + 1, sc), 'what': '; '.join(rep['problems'])[:600]}
            finally:
                shutil.rmtree(root, ignore_errors=True)
    c02_search.runs = runs
    return None


C05_SCENARIOS = ['plain-set', 'plain-setexisting', 'plain-put', 'plain-putexisting', 'plain-gethit', 'plain-touchhit', 'plain-ensurehit', 'plain-ensure', 'plain-replace']
CREATORS = ('rename', 'renameat', 'renameat2', 'link', 'linkat')
PATH_CALLS = ('openat', 'utimensat', 'unlink', 'unlinkat', 'chmod', 'fchmodat', 'statx', 'newfstatat', 'rename', 'renameat', 'renameat2', 'link', 'linkat')


def c05_search(tier='quick'):
    """Bounded stand-in for C05: an adversary that deletes PUBLISHED cache files at arbitrary points is simulated by making
    one system call that names the published entry fail with ENOENT (strace -P <entry> -e inject), every such call of
    the operation in turn.  The operation must still succeed (a lookup reports a miss, a touch absence, a write
    completes).  Returns a failing input (dict) or None."""
    import collections, re, shutil, tempfile
    exe = _build()
    runs = 0
    for scen in C05_SCENARIOS:
        root = tempfile.mkdtemp(prefix='kvc05_')
        entry = os.path.join(root, 'w', 'thekey')
        tf = tempfile.NamedTemporaryFile(prefix='kvtrace', suffix='.log', delete=False)
        tf.close()
        try:
            p = subprocess.run(['strace', '-f', '-qq', '-e', 'trace=' + ','.join(PATH_CALLS) , '-o', tf.name, exe, 'c02', 'run', root, scen],
                               stdout=subprocess.PIPE, stderr=subprocess.PIPE, text=True, timeout=60)
            # calls naming the entry, in order, with their rank among the calls of the same name that name the entry
            rank, inside, state = collections.Counter(), [], 0
            for ln in open(tf.name, errors='replace'):
                m = re.match(r'^(?:\d+\s+)?(\w+)\(', ln)
                if not m:
                    continue
                sc = m.group(1)
                if '"/kv-marker/begin"' in ln:
                    state = 1
                    continue
                if '"/kv-marker/end"' in ln:
                    state = 2
                    continue
                if '"%s"' % entry in ln:
                    rank[sc] += 1
                    if state == 1:
                        inside.append((sc, rank[sc]))
            if state != 2:
                raise RuntimeError('c05: no marker region in the trace of %s (strace unavailable?): %s' % (scen, p.stderr[-300:]))
            if '"ran":true' not in p.stdout:
                return {'scenario': scen, 'adversary': None, 'what': 'the operation fails even without an adversary: ' + p.stdout[-200:] + p.stderr[-200:]}
        finally:
            os.unlink(tf.name)
            shutil.rmtree(root, ignore_errors=True)
        # the adversary deletes the entry just before the i-th call that names it: that call and every later call that
        # names the entry without creating it (open, stat, utimens, chmod, unlink) fail with ENOENT; rename / link onto
        # the name still work (they re-create it).  filetime, for one, retries a failed open with another mode, so a
        # single failing call is not what a deletion looks like.
        victims = [(sc, nth) for sc, nth in inside if sc not in CREATORS]
        for i in range(len(victims)):
            runs += 1
            first = {}
            for sc, nth in victims[i:]:
                first.setdefault(sc, nth)
            root = tempfile.mkdtemp(prefix='kvc05_')
            entry = os.path.join(root, 'w', 'thekey')
            tf = tempfile.NamedTemporaryFile(prefix='kvtrace', suffix='.log', delete=False)
            tf.close()
            try:
                cmd = ['strace', '-f', '-qq', '-P', entry, '-e', 'trace=' + ','.join(sorted(first))]
                for sc, nth in sorted(first.items()):
                    cmd += ['-e', 'inject=%s:error=ENOENT:when=%d+' % (sc, nth)]
                q = subprocess.run(cmd + ['-o', tf.name, exe, 'c02', 'run', root, scen], stdout=subprocess.PIPE, stderr=subprocess.PIPE, text=True, timeout=60)
                injected = 'INJECTED' in open(tf.name, errors='replace').read()
                if injected and '"ran":true' not in q.stdout:
                    sc, nth = victims[i]
                    return {'scenario': scen, 'adversary': 'the published entry is deleted just before %s #%d that names it (that call and the later ones see ENOENT)' % (sc, nth),
                            'what': 'the operation fails or panics merely because a published cache file was deleted concurrently: ' + (q.stdout.strip()[-100:] or q.stderr.strip()[-200:])}
            finally:
                os.unlink(tf.name)
                shutil.rmtree(root, ignore_errors=True)
    c05_search.runs = runs
    return None


def c05_maint_search(tier='quick'):
    """C05 / C06, maintenance: a file that maintenance has listed vanishes before it is examined (ENOENT injected into one
    stat of a directory entry, every one in turn; strace -P <cache directory>).  The write whose maintenance this is
    must still succeed."""
    import collections, re, shutil, tempfile
    exe = _build()
    runs = 0
    for scen in ['plain-set-maint', 'plain-put-maint', 'plain-prune', 'plain-set-staletemp-maint', 'plain-put-staletemp-maint']:
        root = tempfile.mkdtemp(prefix='kvc05m_')
        wdir = os.path.join(root, 'w')
        tf = tempfile.NamedTemporaryFile(prefix='kvtrace', suffix='.log', delete=False)
        tf.close()
        try:
            p = subprocess.run(['strace', '-f', '-qq', '-y', '-e', 'trace=statx,newfstatat,fstatat64', '-o', tf.name, exe, 'c02', 'run', root, scen],
                               stdout=subprocess.PIPE, stderr=subprocess.PIPE, text=True, timeout=60)
            rank, inside, state = collections.Counter(), [], 0
            for ln in open(tf.name, errors='replace'):
                m = re.match(r'^(?:\d+\s+)?(\w+)\((.*)$', ln)
                if not m:
                    continue
                sc, rest = m.group(1), m.group(2)
                if '"/kv-marker/begin"' in ln:
                    state = 1
                    continue
                if '"/kv-marker/end"' in ln:
                    state = 2
                    continue
                # a stat relative to the open cache directory: statx(3</root/w>, "name", ...)
                # (or to its temporary subdirectory: statx(4</root/w/.kismet_temp>, "stale0", ...))
                # the injection run counts what `strace -P <dir> -P <dir>/.kismet_temp` selects: calls that name one of the two
                # directories through an annotated descriptor or as a path argument; the same selection is counted here
                tdir = os.path.join(wdir, '.kismet_temp')
                if any(('<%s>' % d) in rest or ('"%s"' % d) in rest for d in (wdir, tdir)):
                    rank[sc] += 1
                    if state == 1 and re.match(r'\d+<%s(?:/\.kismet_temp)?>, "[^/"]+"' % re.escape(wdir), rest):
                        inside.append((sc, rank[sc]))
            if state != 2:
                raise RuntimeError('c05m: no marker region in the trace of %s (strace unavailable?): %s' % (scen, p.stderr[-300:]))
            if '"ran":true' not in p.stdout:
                return {'scenario': scen, 'adversary': None, 'what': 'the operation fails even without an adversary: ' + p.stdout[-200:] + p.stderr[-200:]}
        finally:
            os.unlink(tf.name)
            shutil.rmtree(root, ignore_errors=True)
        for sc, nth in inside:
            runs += 1
            root = tempfile.mkdtemp(prefix='kvc05m_')
            wdir = os.path.join(root, 'w')
            tf = tempfile.NamedTemporaryFile(prefix='kvtrace', suffix='.log', delete=False)
            tf.close()
            try:
                q = subprocess.run(['strace', '-f', '-qq', '-P', wdir, '-P', os.path.join(wdir, '.kismet_temp'), '-e', 'trace=' + sc, '-e', 'inject=%s:error=ENOENT:when=%d' % (sc, nth), '-o', tf.name,
                                    exe, 'c02', 'run', root, scen], stdout=subprocess.PIPE, stderr=subprocess.PIPE, text=True, timeout=60)
                injected = 'INJECTED' in open(tf.name, errors='replace').read()
                if injected and '"ran":true' not in q.stdout:
                    return {'scenario': scen, 'adversary': 'a listed file vanishes before maintenance examines it (%s #%d on an entry of the cache directory sees ENOENT)' % (sc, nth),
                            'what': 'the write fails or panics merely because a cache file was deleted concurrently: ' + (q.stdout.strip()[-100:] or q.stderr.strip()[-200:])}
            finally:
                os.unlink(tf.name)
                shutil.rmtree(root, ignore_errors=True)
    c05_maint_search.runs = runs
    return None
