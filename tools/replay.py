"""Build and run the native replay/search binary against /repo's current working tree."""
import json
import os
import subprocess

import kv

CACHE = os.path.join(kv.VERIF, '.cache')


def kreplay(sub, args=(), timeout=900):
    env = dict(os.environ, CARGO_NET_OFFLINE='true', CARGO_TARGET_DIR=os.path.join(CACHE, 'target'))
    crate = os.path.join(kv.VERIF, 'replay')
    manifest = os.path.join(crate, 'Cargo.toml')
    if kv.REPO != '/repo':
        # scratch copy of the repository (self-tests): build a sibling crate pointing at it
        alt = os.path.join(CACHE, 'replay_alt')
        subprocess.run(['rm', '-rf', alt])
        subprocess.run(['cp', '-r', crate, alt], check=True)
        txt = open(os.path.join(alt, 'Cargo.toml')).read().replace('path = "/repo"', 'path = "%s"' % kv.REPO)
        open(os.path.join(alt, 'Cargo.toml'), 'w').write(txt)
        manifest = os.path.join(alt, 'Cargo.toml')
    b = subprocess.run(['cargo', 'build', '--release', '--offline', '-q', '--manifest-path', manifest],
                       env=env, stdout=subprocess.PIPE, stderr=subprocess.PIPE, text=True, timeout=timeout)
    if b.returncode != 0:
        raise RuntimeError('replay crate failed to build: ' + b.stderr[-2000:])
    exe = os.path.join(CACHE, 'target', 'release', 'kreplay')
    r = subprocess.run([exe, sub] + [str(a) for a in args], stdout=subprocess.PIPE, stderr=subprocess.PIPE,
                       text=True, timeout=timeout)
    last = [ln for ln in r.stdout.splitlines() if ln.strip().startswith('{')]
    if not last:
        raise RuntimeError('replayer produced no result: rc=%s %s' % (r.returncode, r.stderr[-1000:]))
    return json.loads(last[-1])
