"""A small Rust lexer: enough to locate items by structure and to compare token
streams.  Tokens are (kind, text, start, end) with byte offsets into the source
string.  Kinds: 'ws', 'lc' (line comment), 'bc' (block comment), 'str', 'chr',
'life', 'num', 'id', 'p' (single punctuation char).

Punctuation is lexed one char at a time: `>>` and `> >` compare equal, which is
harmless for our purposes (item location and erasure comparison)."""

import re

ID_START = re.compile(r'[A-Za-z_]')
ID_CONT = re.compile(r'[A-Za-z0-9_]')


class LexError(Exception):
    pass


def lex(src):
    toks = []
    i, n = 0, len(src)
    while i < n:
        c = src[i]
        # whitespace
        if c.isspace():
            j = i + 1
            while j < n and src[j].isspace():
                j += 1
            toks.append(('ws', src[i:j], i, j))
            i = j
            continue
        # comments
        if src.startswith('//', i):
            j = src.find('\n', i)
            if j < 0:
                j = n
            toks.append(('lc', src[i:j], i, j))
            i = j
            continue
        if src.startswith('/*', i):
            depth, j = 1, i + 2
            while j < n and depth:
                if src.startswith('/*', j):
                    depth += 1
                    j += 2
                elif src.startswith('*/', j):
                    depth -= 1
                    j += 2
                else:
                    j += 1
            if depth:
                raise LexError('unterminated block comment at %d' % i)
            toks.append(('bc', src[i:j], i, j))
            i = j
            continue
        # raw strings / byte strings / raw identifiers
        m = re.compile(r'(b|c)?r(#*)"').match(src, i)
        if m:
            hashes = m.group(2)
            close = '"' + hashes
            j = src.find(close, m.end())
            if j < 0:
                raise LexError('unterminated raw string at %d' % i)
            j += len(close)
            toks.append(('str', src[i:j], i, j))
            i = j
            continue
        if c == '"' or (c in 'bc' and i + 1 < n and src[i + 1] == '"'):
            j = i + (1 if c == '"' else 2)
            while j < n and src[j] != '"':
                if src[j] == '\\':
                    j += 1
                j += 1
            if j >= n:
                raise LexError('unterminated string at %d' % i)
            j += 1
            toks.append(('str', src[i:j], i, j))
            i = j
            continue
        if c == "'" or (c == 'b' and i + 1 < n and src[i + 1] == "'"):
            k = i + (1 if c == "'" else 2)
            # char literal or lifetime?
            if k < n and src[k] == '\\':
                j = k + 2
                while j < n and src[j] != "'":
                    j += 1
                j += 1
                toks.append(('chr', src[i:j], i, j))
                i = j
                continue
            if k + 1 < n and src[k + 1] == "'" and src[k] != "'":
                j = k + 2
                toks.append(('chr', src[i:j], i, j))
                i = j
                continue
            # multi-byte char literal (non-ASCII)
            if k < n and ord(src[k]) > 127:
                j = src.find("'", k)
                if j >= 0 and j - k <= 4:
                    j += 1
                    toks.append(('chr', src[i:j], i, j))
                    i = j
                    continue
            if c == "'":
                j = k
                while j < n and ID_CONT.match(src[j]):
                    j += 1
                toks.append(('life', src[i:j], i, j))
                i = j
                continue
        if c.isdigit():
            j = i + 1
            while j < n and (ID_CONT.match(src[j]) or
                             (src[j] == '.' and j + 1 < n and src[j + 1].isdigit()
                              and not src.startswith('..', j))):
                j += 1
            toks.append(('num', src[i:j], i, j))
            i = j
            continue
        if ID_START.match(c):
            j = i + 1
            while j < n and ID_CONT.match(src[j]):
                j += 1
            toks.append(('id', src[i:j], i, j))
            i = j
            continue
        toks.append(('p', c, i, i + 1))
        i += 1
    return toks


def code(toks):
    """Tokens that matter for comparison: no whitespace, no comments."""
    return [t for t in toks if t[0] not in ('ws', 'lc', 'bc')]


def texts(toks):
    return [t[1] for t in code(toks)]


OPEN = {'(': ')', '[': ']', '{': '}'}
CLOSE = {')': '(', ']': '[', '}': '{'}


def match_close(ctoks, i):
    """ctoks: code tokens; ctoks[i] is an opening bracket.  Returns index of its
    closing bracket."""
    assert ctoks[i][1] in OPEN, ctoks[i]
    depth = 0
    for j in range(i, len(ctoks)):
        t = ctoks[j]
        if t[0] == 'p':
            if t[1] in OPEN:
                depth += 1
            elif t[1] in CLOSE:
                depth -= 1
                if depth == 0:
                    return j
    raise LexError('unbalanced bracket at byte %d' % ctoks[i][2])
