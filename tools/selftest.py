#!/usr/bin/env python3
"""Self-test of the contracts on deliberately modified scratch copies of /repo.

contracts/selftest/<prop>.json: list of {name, file, old, new, expect} where expect is
"violation" (check must exit 1), "ok" (harmless edit: must exit 0) or "undecided" (exit 2).
Nothing is ever written to /repo."""
import json
import os
import subprocess
import sys
import tempfile

VERIF = os.path.dirname(os.path.dirname(os.path.abspath(__file__)))
RC = {'violation': 1, 'ok': 0, 'undecided': 2}


def main():
    want = sys.argv[1:]
    d = os.path.join(VERIF, 'contracts', 'selftest')
    bad = 0
    scratch = tempfile.mkdtemp(prefix='kv_selftest_')
    try:
        # the committed tree (never /repo's working tree, which another harness may have patched)
        subprocess.run('git -C /repo archive HEAD | tar -x -C %s' % scratch, shell=True, check=True)
        for fn in sorted(os.listdir(d)):
            if not fn.endswith('.json') or fn == 'harmless.json':   # harmless.json belongs to tools/harmless.py
                continue
            prop = fn[:-5]
            if want and prop not in want:
                continue
            for m in json.load(open(os.path.join(d, fn))):
                path = os.path.join(scratch, m['file'])
                orig = open(path).read()
                edits = m.get('edits') or [{'old': m['old'], 'new': m['new']}]
                text = orig
                broken = False
                for e in edits:
                    if text.count(e['old']) != 1:
                        print('SELFTEST-BROKEN %s/%s: pattern occurs %d times: %r' % (prop, m['name'], text.count(e['old']), e['old'][:60]))
                        broken = True
                        break
                    text = text.replace(e['old'], e['new'])
                if broken:
                    bad += 1
                    continue
                open(path, 'w').write(text)
                try:
                    for p in m.get('props', [prop]):
                        r = subprocess.run([os.path.join(VERIF, 'check'), p, '--no-probe'],
                                           env=dict(os.environ, KV_REPO=scratch, KV_EVIDENCE_DIR=os.path.join(scratch, 'ev')),
                                           stdout=subprocess.PIPE, stderr=subprocess.STDOUT, text=True)
                        ok = r.returncode == RC[m['expect']]
                        print('%s %s/%s on %s: expected %s, got rc=%d' % ('pass' if ok else 'FAIL', prop, m['name'], p, m['expect'], r.returncode))
                        if not ok:
                            bad += 1
                            print('    ' + '\n    '.join(r.stdout.strip().splitlines()[-6:]))
                finally:
                    open(path, 'w').write(orig)
    finally:
        subprocess.run(['rm', '-rf', scratch])
    print('selftest: %d unexpected outcome(s)' % bad)
    return 1 if bad else 0


if __name__ == '__main__':
    sys.exit(main())
